package hdr

import (
	"github.com/tokenized/bitcoin_reader/headers"
)

// Synthetic split table used to make chain-split handling reachable in small histories:
//   - required split (the chain we must follow) at height 3: parent G/a/a, required header G/a/a/a
//   - foreign split "F3" at height 3 with the same fork point: foreign header G/a/a/b
//   - foreign split "F2" at height 2: fork point G/a, foreign header G/a/b
const (
	SynthReqBefore = "G/a/a"
	SynthReqAfter  = "G/a/a/a"
	SynthF3After   = "G/a/a/b"
	SynthF2Before  = "G/a"
	SynthF2After   = "G/a/b"
)

func applySplits(repo *headers.Repository, mode string) {
	switch mode {
	case "":
		return
	case "synth":
		splits := headers.Splits{
			{Name: "F2", BeforeHash: Get(SynthF2Before).Hash, AfterHash: Get(SynthF2After).Hash, Height: 2},
			{Name: "F3", BeforeHash: Get(SynthReqBefore).Hash, AfterHash: Get(SynthF3After).Hash, Height: 3},
		}
		req := &headers.Split{Name: "REQ", BeforeHash: Get(SynthReqBefore).Hash,
			AfterHash: Get(SynthReqAfter).Hash, Height: 3}
		repo.VerifSetSplits(splits, req)
	case "synth20":
		// the same table 18 heights up: foreign split at 20, required and foreign split at 21
		b19, b20 := AChain(19), AChain(20)
		splits := headers.Splits{
			{Name: "F20", BeforeHash: Get(b19).Hash, AfterHash: Get(b19 + "/b").Hash, Height: 20},
			{Name: "F21", BeforeHash: Get(b20).Hash, AfterHash: Get(b20 + "/b").Hash, Height: 21},
		}
		req := &headers.Split{Name: "REQ", BeforeHash: Get(b20).Hash, AfterHash: Get(b20 + "/a").Hash, Height: 21}
		repo.VerifSetSplits(splits, req)
	default:
		panic("unknown split mode " + mode)
	}
}

// AChain returns the label of the n-th header of the straight chain G/a/a/...
func AChain(n int) string {
	l := "G"
	for i := 0; i < n; i++ {
		l += "/a"
	}
	return l
}

// SplitBeforeLabels returns the labels of the fork points of the synthetic split table.
func SplitBeforeLabels(mode string) []string {
	switch mode {
	case "synth":
		return []string{SynthReqBefore, SynthF2Before}
	case "synth20":
		return []string{AChain(19), AChain(20)}
	}
	return nil
}
