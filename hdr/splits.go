package hdr

import (
	"github.com/tokenized/bitcoin_reader/headers"
)

// Synthetic split table used to make chain-split handling reachable in small histories:
//   - required split (the chain we must follow) at height 3: parent G/a/a, required header G/a/a/a
//   - foreign split "F3" at height 3 with the same fork point: foreign header G/a/a/b
//   - foreign split "F2" at height 2: fork point G/a, foreign header G/a/b
const (
	SynthReqBefore = "G/a/a"
	SynthReqAfter  = "G/a/a/a"
	SynthF3After   = "G/a/a/b"
	SynthF2Before  = "G/a"
	SynthF2After   = "G/a/b"
)

func applySplits(repo *headers.Repository, mode string) {
	switch mode {
	case "":
		return
	case "synth":
		splits := headers.Splits{
			{Name: "F2", BeforeHash: Get(SynthF2Before).Hash, AfterHash: Get(SynthF2After).Hash, Height: 2},
			{Name: "F3", BeforeHash: Get(SynthReqBefore).Hash, AfterHash: Get(SynthF3After).Hash, Height: 3},
		}
		req := &headers.Split{Name: "REQ", BeforeHash: Get(SynthReqBefore).Hash,
			AfterHash: Get(SynthReqAfter).Hash, Height: 3}
		repo.VerifSetSplits(splits, req)
	default:
		panic("unknown split mode " + mode)
	}
}
