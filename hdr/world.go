package hdr

import (
	"bytes"
	"context"
	"fmt"
	"math/big"
	"runtime"
	"sort"
	"strings"
	"sync/atomic"
	"time"

	"verif/ref"
	"verif/vstore"

	"github.com/pkg/errors"
	"github.com/tokenized/bitcoin_reader/headers"
	"github.com/tokenized/logger"
	"github.com/tokenized/pkg/bitcoin"
	"github.com/tokenized/pkg/wire"
)

// Config selects the closed system a World runs.
type Config struct {
	MaxBranchDepth  int      `json:"max_branch_depth"`
	LegacyPrefix    int      `json:"legacy_prefix,omitempty"`    // genesis start: storage holds G/a/a/... up to this height as a version-0 header file only; the first Load migrates it
	Legacy          bool     `json:"legacy_files,omitempty"`     // with Base: storage holds the chain as version-0 header files only (Load migrates them)
	Base            int      `json:"base,omitempty"`             // 0: start at genesis; n: start on a saved straight chain of height n
	InitLoad        bool     `json:"init_load,omitempty"`        // start by Load from empty storage instead of InitializeWithGenesis
	Splits          string   `json:"splits,omitempty"`           // "": none reachable; "synth": synthetic split table (see splits.go)
	Invalid         []string `json:"invalid,omitempty"`          // labels configured as invalid header hashes
	Prefix          int      `json:"prefix,omitempty"`           // a straight chain G/a/a/... of this height is submitted before the explored history starts
	InvalidLater    []string `json:"invalid_later,omitempty"`    // labels appended to the configured invalid hashes from the first restart on (the operator extends the list between runs)
	ObserveReads    bool     `json:"observe_reads,omitempty"`    // call the lookup API for every accepted header and height after every operation (a read must not influence later answers)
	ObserveLocators bool     `json:"observe_locators,omitempty"` // request the locators after every operation, the way peers are polled between events (a read must not influence later answers)
}

// Op is one letter of the alphabet.
type Op struct {
	K string `json:"k"`           // sub, clean, cleand, save, reload, reloadd, mark, unmark, markx, subscribe
	L string `json:"l,omitempty"` // header label
	D int    `json:"d,omitempty"` // prune depth for cleand / reloadd
}

func (o Op) String() string {
	switch o.K {
	case "sub", "subw", "mark", "unmark", "unmarkrace":
		if o.K == "sub" && o.D > 0 {
			return fmt.Sprintf("sub(%s)!storage-fault-at-call-%d", o.L, o.D)
		}
		return o.K + "(" + o.L + ")"
	case "reload":
		if o.L != "" {
			return o.K + "(" + o.L + ")"
		}
		return o.K
	case "fullrace":
		if o.D != 0 {
			return fmt.Sprintf("%s(%d)", o.K, o.D)
		}
		return o.K
	case "cleand", "reloadd", "grow", "growside", "growx", "growlag":
		if o.L != "" {
			return fmt.Sprintf("%s(%d,%s)", o.K, o.D, o.L)
		}
		return fmt.Sprintf("%s(%d)", o.K, o.D)
	}
	return o.K
}

func HistString(h []Op) string {
	s := make([]string, len(h))
	for i, o := range h {
		s[i] = o.String()
	}
	return strings.Join(s, " ")
}

// Verdict classes of a submission.
const (
	VOK      = "ok"
	VUnknown = "unknown-parent"
	VWrong   = "wrong-chain"
	VMarked  = "marked-invalid"
	VDepth   = "too-deep"
	VWork    = "bad-work"
	VTarget  = "bad-bits"
)

// Step is what one applied operation produced.
type Step struct {
	Op      Op
	Err     string // error text, "" for nil
	Class   string // verdict class for submissions
	Panic   string
	Batches [][]bitcoin.Hash32 // per subscriber: hashes announced during this op
	PreTip  bitcoin.Hash32
	PostTip bitcoin.Hash32
	Known   bool              // the submitted header was in the accepted set before the op
	Mutated []vstore.Mutation // storage mutations issued by clean/save ops
}

// Sub is one stream subscriber.
type Sub struct {
	Ch    <-chan *wire.BlockHeader
	Chain []bitcoin.Hash32 // replayer state: the chain as reconstructed from the stream
	Bad   string           // first replayer failure
}

// World is one run of the real repository plus the reference model.
type World struct {
	Cfg   Config
	Ctx   context.Context
	Store *vstore.Store
	Repo  *headers.Repository
	Tree  *ref.Tree
	Subs  []*Sub
	Steps []Step

	Submitted    map[string]bool
	Marked       []bitcoin.Hash32 // model of the invalid list (order of marking)
	restarts     int              // number of reloads so far
	hasSaved     bool             // a Save has completed
	savedTree    string           // treeKey at the last completed Save
	Forgot       bool             // memory was reduced by a small-depth prune or a reload
	MinDepth     int              // smallest prune depth applied so far (0: never pruned)
	PruneFloor   int              // highest "best height - prune depth" over all prunes so far: what lies below may be gone from memory
	Pruned       bool
	heightNow    int      // best height before the operation being applied
	Removed      []string // labels removed from the accepted set by marking (with descendants)
	MarkedLabels []string // labels currently marked
	hcfg         *headers.Config
	hcfgLater    bool
	Anomalies    []string // model-level anomalies (accepted header with unaccepted parent, ...)

	SeqAtPrune int      // highest acceptance number at the time of the latest prune: what was accepted later is held by the repository's own answer
	SavedWork  *big.Int // cumulative work of the reported tip at the last completed Save (nil: none)
}

func classify(err error) string {
	if err == nil {
		return VOK
	}
	switch errors.Cause(err) {
	case headers.ErrUnknownHeader:
		return VUnknown
	case headers.ErrWrongChain:
		return VWrong
	case headers.ErrHeaderMarkedInvalid:
		return VMarked
	case headers.ErrBeyondMaxBranchDepth:
		return VDepth
	case headers.ErrNotEnoughWork:
		return VWork
	case headers.ErrInvalidTarget:
		return VTarget
	}
	return "other:" + err.Error()
}

// Safe runs f and converts a panic into a string.
func Safe(f func() error) (err error, panicked string) {
	defer func() {
		if r := recover(); r != nil {
			panicked = fmt.Sprint(r)
		}
	}()
	return f(), ""
}

// headersConfig returns the configuration value handed to every repository instance of this world.
// One value serves all instances of a history (a supervisor restarting the repository in one
// process keeps its configuration object), and it is rebuilt only when the operator extends the
// list between runs (InvalidLater): whatever a repository does to the slices it was given is then
// seen by the next instance, as it would be in such a process.
func (w *World) headersConfig() *headers.Config {
	later := w.restarts > 0 && len(w.Cfg.InvalidLater) > 0
	if w.hcfg != nil && w.hcfgLater == later {
		return w.hcfg
	}
	c := &headers.Config{Network: bitcoin.MainNet, MaxBranchDepth: w.Cfg.MaxBranchDepth}
	for _, l := range w.Cfg.Invalid {
		c.InvalidHeaderHashes = append(c.InvalidHeaderHashes, Get(l).Hash)
	}
	if later {
		for _, l := range w.Cfg.InvalidLater {
			c.InvalidHeaderHashes = append(c.InvalidHeaderHashes, Get(l).Hash)
		}
	}
	w.hcfg, w.hcfgLater = c, later
	return c
}

// NewRepo creates a fresh repository instance on the world's storage (not yet loaded).
func (w *World) NewRepo() *headers.Repository {
	repo := headers.NewRepository(w.headersConfig(), w.Store)
	repo.DisableDifficulty()
	applySplits(repo, w.Cfg.Splits)
	return repo
}

// NewWorld builds the initial state for a configuration.
func NewWorld(cfg Config) (*World, error) {
	w := &World{Cfg: cfg, Ctx: logger.ContextWithNoLogger(context.Background()),
		Submitted: map[string]bool{}}
	if cfg.Base > 0 {
		b := GetBase(cfg.Base)
		w.Store = b.Store.Clone()
		if cfg.Legacy {
			w.Store = legacyStore(w.Ctx, cfg.Base)
		}
		w.Tree = ref.NewTree()
		w.Tree.Shared = b.Nodes
		w.Repo = w.NewRepo()
		if err, p := Safe(func() error { return w.Repo.Load(w.Ctx) }); err != nil || p != "" {
			return nil, fmt.Errorf("base load: %v %s", err, p)
		}
		w.SavedWork = b.Tip.Work
		w.Tree.SharedTip = b.Tip
		w.Forgot = true
		w.heightNow = cfg.Base
		w.notePrune(10000)
	} else {
		w.Store = vstore.New()
		w.Tree = ref.NewTree()
		g := Genesis()
		w.Tree.AddRoot(RH(g.Hash), 0, g.Header.Bits, ref.WorkForBits(g.Header.Bits), "G")
		if cfg.LegacyPrefix > 0 {
			buf := &bytes.Buffer{}
			buf.WriteByte(0)
			gh := g.Header.Copy()
			gh.Serialize(buf)
			label := "G"
			for i := 0; i < cfg.LegacyPrefix; i++ {
				label += "/a"
				u := Get(label)
				hc := u.Header.Copy()
				hc.Serialize(buf)
				w.Tree.Add(RH(u.Hash), RH(u.Header.PrevBlock), u.Header.Bits, u.Label)
				w.Submitted[label] = true
			}
			w.Store.Write(w.Ctx, fmt.Sprintf("headers/%08x", 0), buf.Bytes(), nil)
		}
		w.Repo = w.NewRepo()
		if cfg.InitLoad || cfg.LegacyPrefix > 0 {
			if err, p := Safe(func() error { return w.Repo.Load(w.Ctx) }); err != nil || p != "" {
				return nil, fmt.Errorf("initial load: %v %s", err, p)
			}
		} else {
			w.Repo.InitializeWithGenesis()
		}
	}
	for _, l := range cfg.Invalid {
		if !w.isMarked(Get(l).Hash) { // a configured list may repeat a hash
			w.Marked = append(w.Marked, Get(l).Hash)
		}
	}
	label := "G"
	for i := 0; i < cfg.Prefix; i++ {
		label += "/a"
		if st := w.Apply(Op{K: "sub", L: label}); st.Err != "" || st.Panic != "" {
			return nil, fmt.Errorf("prefix chain at %s: %s %s", label, st.Err, st.Panic)
		}
	}
	w.Steps = nil
	return w, nil
}

// Run builds a world and applies a history.
func Run(cfg Config, hist []Op) (*World, error) {
	w, err := NewWorld(cfg)
	if err != nil {
		return nil, err
	}
	for _, op := range hist {
		w.Apply(op)
	}
	return w, nil
}

func (w *World) tipHash() bitcoin.Hash32 {
	var h bitcoin.Hash32
	Safe(func() error { h = w.Repo.LastHash(); return nil })
	return h
}

func (w *World) isMarked(h bitcoin.Hash32) bool {
	for _, m := range w.Marked {
		if m == h {
			return true
		}
	}
	return false
}

// Apply performs one operation on the real repository and updates the model.
func (w *World) Apply(op Op) *Step {
	st := Step{Op: op, PreTip: w.tipHash()}
	var lagPre [][]bitcoin.Hash32 // what lagging subscribers read while a growlag operation was under way
	Safe(func() error { w.heightNow = w.Repo.Height(); return nil })
	switch op.K {
	case "sub", "subw":
		u := Get(op.L)
		st.Known = w.Tree.Get(RH(u.Hash)) != nil
		hc := u.Header.Copy()
		hhBefore := -1
		Safe(func() error { hhBefore = w.Repo.HashHeight(u.Hash); return nil })
		if op.K == "subw" { // proof-of-work checking on for this one submission
			w.Repo.EnableDifficulty()
		}
		if op.K == "sub" && op.D > 0 {
			// the D-th storage write / removal issued during this submission fails (a storage fault
			// during the automatic clean); whatever the repository does about it, its answer and its
			// announcements have to stay consistent with what it reports
			w.Store.FailAt(op.D)
		}
		err, p := Safe(func() error { return w.Repo.ProcessHeader(w.Ctx, &hc) })
		w.Store.FailAt(0)
		if op.K == "subw" {
			w.Repo.DisableDifficulty()
		}
		st.Panic = p
		st.Class = classify(err)
		if err != nil {
			st.Err = err.Error()
		}
		w.Submitted[op.L] = true
		if p == "" {
			accepted := err == nil
			if !accepted {
				// An error return must not leave the header known: if the submission made it known, it
				// counts as accepted (C01: an error return never leaves a heavier accepted chain unreported).
				hh := -1
				Safe(func() error { hh = w.Repo.HashHeight(u.Hash); return nil })
				if hh != -1 && hhBefore == -1 && !st.Known {
					accepted = true
				}
			}
			if accepted && !st.Known {
				if n := w.Tree.Add(RH(u.Hash), RH(u.Header.PrevBlock), u.Header.Bits, u.Label); n == nil {
					w.Anomalies = append(w.Anomalies, "accepted header with unaccepted parent: "+u.Label)
				}
			}
		}
	case "grow", "growside", "growx":
		// grow: extend the reported best chain by D unit-work headers; growside: extend the heaviest
		// leaf that is not on the reported best chain by D double-work headers (so that a side branch
		// overtakes). Both reach taller trees than the bound on single submissions allows.
		tip := w.Tree.Get(RH(w.tipHash()))
		label := "G"
		slot := "a"
		if tip != nil {
			label = tip.Label
		}
		if op.K == "growside" || op.K == "growx" {
			// growx: the same leaf, extended by unit-work headers (a long side branch that stays behind)
			if op.K == "growside" {
				slot = "H"
			}
			var best *ref.Node
			for _, n := range w.Tree.Sorted() {
				if !w.Tree.IsLeaf(n) || (tip != nil && tip.HasAncestorOrSelf(n.Hash)) {
					continue
				}
				if best == nil || n.Work.Cmp(best.Work) > 0 {
					best = n
				}
			}
			if best == nil {
				break
			}
			label = best.Label
		}
		for i := 0; i < op.D; i++ {
			label += "/" + slot
			for w.Submitted[label] {
				label += "2"
			}
			u := Get(label)
			hc := u.Header.Copy()
			hhBefore := -1
			Safe(func() error { hhBefore = w.Repo.HashHeight(u.Hash); return nil })
			err, p := Safe(func() error { return w.Repo.ProcessHeader(w.Ctx, &hc) })
			w.Submitted[label] = true
			if p != "" {
				st.Panic = p
				break
			}
			if err != nil {
				st.Err = err.Error()
				// as for single submissions: an error return that leaves the header known counts as
				// an acceptance (C01: it must not leave a heavier accepted chain unreported)
				hh := -1
				Safe(func() error { hh = w.Repo.HashHeight(u.Hash); return nil })
				if hh != -1 && hhBefore == -1 {
					w.Tree.Add(RH(u.Hash), RH(u.Header.PrevBlock), u.Header.Bits, u.Label)
				}
				break
			}
			w.Tree.Add(RH(u.Hash), RH(u.Header.PrevBlock), u.Header.Bits, u.Label)
		}
	case "growlag":
		// D unit-work headers B1..BD on genesis, submitted by a second goroutine while the subscribers
		// do not read: they only start reading once the producer has finished or has stopped making
		// progress with a subscriber's buffer full (a subscriber that lags behind by more than the
		// buffer holds). Nothing may be lost or reordered.
		if w.tipHash() != Genesis().Hash {
			break
		}
		var progress atomic.Int64
		done := make(chan struct{})
		go func() {
			defer close(done)
			for i := 1; i <= op.D; i++ {
				u := Get(BaseLabel(i))
				hc := u.Header.Copy()
				err, p := Safe(func() error { return w.Repo.ProcessHeader(w.Ctx, &hc) })
				w.Submitted[u.Label] = true
				if p != "" {
					st.Panic = p
					return
				}
				if err != nil {
					st.Err = err.Error()
					return
				}
				w.Tree.Add(RH(u.Hash), RH(u.Header.PrevBlock), u.Header.Bits, u.Label)
				progress.Add(1)
			}
		}()
		lagPre = make([][]bitcoin.Hash32, len(w.Subs))
		finished := false
		last, since := int64(-1), time.Now()
		for !finished {
			select {
			case <-done:
				finished = true
				continue
			default:
			}
			if n := progress.Load(); n != last {
				last, since = n, time.Now()
				time.Sleep(50 * time.Microsecond)
				continue
			}
			if time.Since(since) < 5*time.Millisecond {
				time.Sleep(50 * time.Microsecond)
				continue
			}
			// the producer makes no progress; where a buffer is full it is waiting for that
			// subscriber, which now catches up a little
			for i, s := range w.Subs {
				if len(s.Ch) < cap(s.Ch) {
					continue
				}
				for k := 0; k < 64; k++ {
					select {
					case h := <-s.Ch:
						lagPre[i] = append(lagPre[i], *h.BlockHash())
						s.replay(h)
					default:
					}
				}
			}
			since = time.Now()
		}
	case "fullrace":
		// Two submitters at once while a subscriber's buffer is exactly full: 9999 headers B1.., a
		// side header S1 = B9998/a (a sibling of B9999 with the same work: not announced), B10000
		// (10000 announcements in all), then submitter 1 offers S2 = S1/H (double work) - a
		// reorganisation announcing S1 and S2, which has to wait for the subscriber - and, once it is
		// waiting, submitter 2 offers S3 = S2/a. Only then does the subscriber read. It must see
		// ..., S1, S2, S3 in that order.
		if w.tipHash() != Genesis().Hash || len(w.Subs) == 0 {
			break
		}
		submit := func(label string) (error, string) {
			u := Get(label)
			hc := u.Header.Copy()
			err, p := Safe(func() error { return w.Repo.ProcessHeader(w.Ctx, &hc) })
			w.Submitted[label] = true
			return err, p
		}
		accept := func(label string) {
			u := Get(label)
			w.Tree.Add(RH(u.Hash), RH(u.Header.PrevBlock), u.Header.Bits, u.Label)
		}
		ok := true
		for i := 1; i <= 10000 && ok; i++ {
			if i == 10000 {
				if err, p := submit("B9998/a"); err != nil || p != "" {
					st.Err, st.Panic, ok = fmt.Sprint(err), p, false
					break
				}
				accept("B9998/a")
			}
			if err, p := submit(BaseLabel(i)); err != nil || p != "" {
				st.Err, st.Panic, ok = fmt.Sprint(err), p, false
				break
			}
			accept(BaseLabel(i))
		}
		if !ok {
			break
		}
		if op.D == 2 {
			// variant 2: one more extension, submitted with a context that is already cancelled (a
			// caller that is shutting down) while the subscriber's buffer is full. Whatever the
			// verdict, the stream and the reported chain must keep agreeing.
			ctx, cancel := context.WithCancel(w.Ctx)
			cancel()
			u := Get("B10000/a")
			hc := u.Header.Copy()
			var errc error
			var pc string
			donec := make(chan struct{})
			go func() {
				defer close(donec)
				errc, pc = Safe(func() error { return w.Repo.ProcessHeader(ctx, &hc) })
			}()
			w.Submitted["B10000/a"] = true
			waitForSenders(1, 100*time.Millisecond)
			lagPre = make([][]bitcoin.Hash32, len(w.Subs))
			for running := true; running; {
				select {
				case <-donec:
					running = false
				default:
					for i, s := range w.Subs {
						select {
						case h := <-s.Ch:
							lagPre[i] = append(lagPre[i], *h.BlockHash())
							s.replay(h)
						default:
						}
					}
				}
			}
			st.Panic = pc
			if errc != nil {
				st.Err = errc.Error()
			} else if pc == "" {
				accept("B10000/a")
			}
			break
		}
		// variant 1: submitter 2 extends the chain that is still reported (B10000/Q, quadruple work)
		// while submitter 1's reorganisation is waiting: the old chain is the heavier one again and
		// must be the one reported when both have returned
		second := "B9998/a/H/a"
		if op.D == 1 {
			second = "B10000/Q"
		}
		var err2, err3 error
		var p2, p3 string
		done2, done3 := make(chan struct{}), make(chan struct{})
		go func() { defer close(done2); err2, p2 = submit("B9998/a/H") }()
		waitForSenders(1, 2*time.Second) // submitter 1 is waiting for the subscriber
		go func() { defer close(done3); err3, p3 = submit(second) }()
		// submitter 2 is either waiting for the repository (behind submitter 1) or for the subscriber
		waitForSenders(2, 100*time.Millisecond)
		lagPre = make([][]bitcoin.Hash32, len(w.Subs))
		for pending := 2; pending > 0; {
			select {
			case <-done2:
				done2 = nil
				pending--
			case <-done3:
				done3 = nil
				pending--
			default:
				for i, s := range w.Subs {
					select {
					case h := <-s.Ch:
						lagPre[i] = append(lagPre[i], *h.BlockHash())
						s.replay(h)
					default:
					}
				}
			}
		}
		if p2 != "" || p3 != "" {
			st.Panic = p2 + p3
		}
		if err2 == nil && p2 == "" {
			accept("B9998/a/H")
		}
		// submitter 2 may have got in first (then its header has no known parent yet and is refused)
		if err3 == nil && p3 == "" && (err2 == nil || op.D == 1) {
			accept(second)
		}
		if op.D == 1 && (err2 != nil || err3 != nil) {
			st.Err = fmt.Sprint(err2, err3)
		}
	case "clean":
		w.notePrune(10000)
		w.Store.StartLog()
		err, p := Safe(func() error { return w.Repo.Clean(w.Ctx) })
		st.Mutated = w.Store.StopLog()
		st.Panic = p
		if err != nil {
			st.Err = err.Error()
		}
	case "cleand":
		w.Store.StartLog()
		if strings.HasPrefix(op.L, "fault") {
			// the k-th storage write / removal of this Clean fails (a transient storage fault)
			var k int
			fmt.Sscanf(op.L, "fault%d", &k)
			w.Store.FailAt(k)
		}
		err, p := Safe(func() error { return w.Repo.VerifClean(w.Ctx, op.D) })
		w.Store.FailAt(0)
		st.Mutated = w.Store.StopLog()
		st.Panic = p
		if err != nil {
			st.Err = err.Error()
		}
		w.Forgot = true
		w.notePrune(op.D)
	case "save":
		w.Store.StartLog()
		err, p := Safe(func() error { return w.Repo.Save(w.Ctx) })
		st.Mutated = w.Store.StopLog()
		st.Panic = p
		if err != nil {
			st.Err = err.Error()
		}
		if err == nil && p == "" {
			w.noteSaved()
		}
	case "reload", "reloadd":
		w.Store.StartLog()
		var err error
		var p string
		if op.L == "nosave" && w.InSync() {
			// a restart without a Save (the process was killed): offered only while the accepted
			// headers are exactly those of the last completed Save, so the expected state is the
			// same as for a restart after Save - including every hash marked since, known or not
		} else {
			err, p = Safe(func() error { return w.Repo.Save(w.Ctx) })
		}
		st.Mutated = w.Store.StopLog()
		if err == nil && p == "" {
			w.noteSaved()
			w.restarts++
			if op.L == "same-instance" {
				// Load is called again on the instance that just saved (nothing in the repository's
				// contract reserves Load for a fresh value): it must end up as a fresh one would
			} else {
				w.Repo = w.NewRepo()
				w.Subs = nil // subscriptions belong to the old instance
			}
			if w.restarts == 1 {
				// hashes configured from this run on: refused when offered later (a header that is
				// already held stays)
				for _, l := range w.Cfg.InvalidLater {
					w.Marked = append(w.Marked, Get(l).Hash)
				}
			}
			// the configured list is merged into the stored one at every start: a configured hash
			// that was unmarked during the previous run is refused again (a header already held stays)
			for _, l := range w.Cfg.Invalid {
				if !w.isMarked(Get(l).Hash) {
					w.Marked = append(w.Marked, Get(l).Hash)
				}
			}
			if op.K == "reload" {
				w.notePrune(10000)
				err, p = Safe(func() error { return w.Repo.Load(w.Ctx) })
			} else {
				w.notePrune(op.D)
				err, p = Safe(func() error { return w.Repo.VerifLoad(w.Ctx, op.D) })
				w.Forgot = true
			}
		}
		st.Panic = p
		if err != nil {
			st.Err = err.Error()
		}
	case "mark", "markx":
		var h bitcoin.Hash32
		if op.K == "markx" {
			h = UnknownHash(op.D)
		} else {
			h = Get(op.L).Hash
		}
		err, p := Safe(func() error { return w.Repo.MarkHeaderInvalid(w.Ctx, h) })
		st.Panic = p
		if err != nil {
			st.Err = err.Error()
		}
		if !w.isMarked(h) {
			w.Marked = append(w.Marked, h)
			if op.K == "mark" {
				w.MarkedLabels = append(w.MarkedLabels, op.L)
			}
		}
		for _, n := range w.Tree.Sorted() {
			if n.HasAncestorOrSelf(RH(h)) {
				w.Removed = append(w.Removed, n.Label)
			}
		}
		w.Tree.Remove(RH(h))
		// the chain of the last completed Save may have lost headers: what a restart owes is at most
		// what is left of the accepted tree
		if w.SavedWork != nil {
			if tips := w.Tree.BestTips(); len(tips) > 0 && tips[0].Work.Cmp(w.SavedWork) < 0 {
				w.SavedWork = tips[0].Work
			}
		}
	case "unmarkrace":
		// MarkHeaderNotInvalid(L) with a second caller's MarkHeaderInvalid(M) arriving while the
		// first is inside its write of the invalid list (a slow storage back-end): the second call
		// either waits for the first (the repository's lock) or runs in the window; it gets 50 ms to
		// show which, then the write goes on. Afterwards both have happened: L is unmarked, M is
		// marked (op.L = "L|M").
		parts := strings.SplitN(op.L, "|", 2)
		hl, hm := Get(parts[0]).Hash, Get(parts[1]).Hash
		done := make(chan struct{})
		var err2 error
		var p2 string
		w.Store.DuringNextWrite("headers/invalid", func() {
			go func() {
				err2, p2 = Safe(func() error { return w.Repo.MarkHeaderInvalid(w.Ctx, hm) })
				close(done)
			}()
			select {
			case <-done:
			case <-time.After(50 * time.Millisecond):
			}
		})
		err, p := Safe(func() error { return w.Repo.MarkHeaderNotInvalid(w.Ctx, hl) })
		w.Store.DuringNextWrite("", nil)
		select {
		case <-done:
		case <-time.After(5 * time.Second):
			p2 = "the second caller's MarkHeaderInvalid did not return"
		}
		st.Panic = p + p2
		if err != nil || err2 != nil {
			st.Err = fmt.Sprint(err, err2)
		}
		// model: unmark L, then mark M
		for i, m := range w.Marked {
			if m == hl {
				w.Marked = append(append([]bitcoin.Hash32{}, w.Marked[:i]...), w.Marked[i+1:]...)
				break
			}
		}
		for i, l := range w.MarkedLabels {
			if l == parts[0] {
				w.MarkedLabels = append(append([]string{}, w.MarkedLabels[:i]...), w.MarkedLabels[i+1:]...)
				break
			}
		}
		if !w.isMarked(hm) {
			w.Marked = append(w.Marked, hm)
			w.MarkedLabels = append(w.MarkedLabels, parts[1])
		}
		for _, n := range w.Tree.Sorted() {
			if n.HasAncestorOrSelf(RH(hm)) {
				w.Removed = append(w.Removed, n.Label)
			}
		}
		w.Tree.Remove(RH(hm))
	case "unmark":
		h := Get(op.L).Hash
		err, p := Safe(func() error { return w.Repo.MarkHeaderNotInvalid(w.Ctx, h) })
		st.Panic = p
		if err != nil {
			st.Err = err.Error()
		}
		for i, m := range w.Marked {
			if m == h {
				w.Marked = append(append([]bitcoin.Hash32{}, w.Marked[:i]...), w.Marked[i+1:]...)
				break
			}
		}
		for i, l := range w.MarkedLabels {
			if l == op.L {
				w.MarkedLabels = append(append([]string{}, w.MarkedLabels[:i]...), w.MarkedLabels[i+1:]...)
				break
			}
		}
	case "subscribe":
		s := &Sub{Ch: w.Repo.GetNewHeadersAvailableChannel()}
		// The subscriber starts from the chain as reported at subscription time.
		s.Chain = w.ReportedChain()
		w.Subs = append(w.Subs, s)
	default:
		panic("unknown op " + op.K)
	}

	// Drain subscriber channels.
	for i, s := range w.Subs {
		var batch []bitcoin.Hash32
		if i < len(lagPre) {
			batch = lagPre[i]
		}
	drain:
		for {
			select {
			case h, ok := <-s.Ch:
				if !ok {
					break drain
				}
				batch = append(batch, *h.BlockHash())
				s.replay(h)
			default:
				break drain
			}
		}
		st.Batches = append(st.Batches, batch)
	}
	st.PostTip = w.tipHash()
	if w.Cfg.ObserveReads {
		Safe(func() error {
			// in reverse of the order the oracles use, so that the last lookup here is the first one there
			nodes := w.Tree.Sorted()
			for i := len(nodes) - 1; i >= 0; i-- {
				h := bitcoin.Hash32(nodes[i].Hash)
				w.Repo.PreviousHash(h)
				w.Repo.GetHeader(w.Ctx, h)
				w.Repo.CheckHeader(w.Ctx, h)
				w.Repo.HashHeight(h)
			}
			tip := w.Repo.Height()
			for h := tip + 1; h >= 0 && h >= tip-12; h-- {
				w.Repo.Header(w.Ctx, h)
				w.Repo.Hash(w.Ctx, h)
			}
			for _, h := range []int{1001, 1000, 999, 2, 1, 0} {
				if h < tip-12 {
					w.Repo.Header(w.Ctx, h)
					w.Repo.Hash(w.Ctx, h)
				}
			}
			w.Repo.GetHeaders(w.Ctx, 0, 5)
			w.Repo.LastHash()
			w.Repo.LastTime()
			w.Repo.AccumulatedWork()
			return nil
		})
	}
	if w.Cfg.ObserveLocators {
		Safe(func() error {
			// the same request every time, the way a poll repeats the previous poll
			w.Repo.GetVerifyOnlyLocatorHashes(w.Ctx)
			w.Repo.GetLocatorHashes(w.Ctx, 50)
			return nil
		})
	}
	w.Steps = append(w.Steps, st)
	return &w.Steps[len(w.Steps)-1]
}

// waitForSenders waits until at least n goroutines are blocked sending on a channel inside the
// headers package (an announcement waiting for a subscriber), or the time is up.
func waitForSenders(n int, max time.Duration) {
	buf := make([]byte, 1<<20)
	for t0 := time.Now(); time.Since(t0) < max; time.Sleep(200 * time.Microsecond) {
		k := 0
		for _, g := range strings.Split(string(buf[:runtime.Stack(buf, true)]), "\n\n") {
			if strings.Contains(g, "[chan send") && strings.Contains(g, "bitcoin_reader/headers.(*Repository)") {
				k++
			}
		}
		if k >= n {
			return
		}
	}
}

// IsMarkedHash reports whether the header with this label is currently refused as marked invalid
// (marked at run time or through the configuration).
func (w *World) IsMarkedHash(l string) bool { return w.isMarked(Get(l).Hash) }

// IsMarkedLabel reports whether the label is currently marked invalid.
func (w *World) IsMarkedLabel(l string) bool {
	for _, m := range w.MarkedLabels {
		if m == l {
			return true
		}
	}
	return false
}

func (w *World) notePrune(d int) {
	if w.MinDepth == 0 || d < w.MinDepth {
		w.MinDepth = d
	}
	height := w.heightNow
	if !w.Pruned || height-d > w.PruneFloor {
		w.PruneFloor = height - d
	}
	w.Pruned = true
	w.SeqAtPrune = 0
	for _, n := range w.Tree.Sorted() {
		if n.Seq > w.SeqAtPrune {
			w.SeqAtPrune = n.Seq
		}
	}
}

// treeKey identifies the set of accepted headers.
func (w *World) treeKey() string {
	var b strings.Builder
	for _, n := range w.Tree.Sorted() {
		b.WriteString(n.Label)
		b.WriteByte(' ')
	}
	return b.String()
}

// InSync reports whether the accepted headers are exactly those of the last completed Save.
func (w *World) InSync() bool { return w.hasSaved && w.savedTree == w.treeKey() }

func (w *World) noteSaved() {
	w.hasSaved, w.savedTree = true, w.treeKey()
	if n := w.Tree.Get(RH(w.tipHash())); n != nil {
		w.SavedWork = n.Work
	}
}

// replay applies one announced header the way a subscriber would: attach to PrevBlock, discard
// everything that was above it.
func (s *Sub) replay(h *wire.BlockHeader) {
	for i := len(s.Chain) - 1; i >= 0; i-- {
		if s.Chain[i] == h.PrevBlock {
			s.Chain = append(s.Chain[:i+1:i+1], *h.BlockHash())
			return
		}
	}
	if s.Bad == "" {
		s.Bad = "announced header " + h.BlockHash().String() + " does not attach to the subscriber's chain"
	}
}

// ReportedChain returns Hash(0..Height) as reported by the repository (nil entries are skipped
// and reported by the oracles, not here). For base chains only the top part is returned.
func (w *World) ReportedChain() []bitcoin.Hash32 {
	var r []bitcoin.Hash32
	Safe(func() error {
		height := w.Repo.Height()
		lo := 0
		if w.Cfg.Base > 0 {
			lo = w.Cfg.Base - 4
		}
		for h := lo; h <= height; h++ {
			hash, err := w.Repo.Hash(w.Ctx, h)
			if err != nil || hash == nil {
				r = append(r, bitcoin.Hash32{})
				continue
			}
			r = append(r, *hash)
		}
		return nil
	})
	return r
}

// AcceptedLabels lists the labels in the accepted set (sorted) for state keys.
func (w *World) AcceptedLabels() string {
	var l []string
	for _, n := range w.Tree.Nodes {
		l = append(l, n.Label)
	}
	sort.Strings(l)
	return strings.Join(l, ",")
}

// Key is the exact state key: internal dump + storage digest + model state.
func (w *World) Key() string {
	dump := ""
	Safe(func() error { dump = w.Repo.VerifDump(); return nil })
	marked := make([]string, len(w.Marked))
	for i, m := range w.Marked {
		marked[i] = m.String()
	}
	subs := make([]string, len(w.Subs))
	for i, s := range w.Subs {
		hs := make([]string, len(s.Chain))
		for j, h := range s.Chain {
			hs[j] = h.String()[:8]
		}
		subs[i] = strings.Join(hs, ">")
	}
	return dump + "|store=" + w.Store.Digest() + "|acc=" + w.AcceptedLabels() + "|marked=" +
		strings.Join(marked, ",") + "|subs=" + strings.Join(subs, ";") +
		fmt.Sprintf("|forgot=%t|floor=%d", w.Forgot, w.PruneFloor)
}

// legacyStore holds genesis and the base chain up to height n in the layout written before branches
// existed: files of 1000 headers, a version byte 0 followed by the bare 80-byte headers.
func legacyStore(ctx context.Context, n int) *vstore.Store {
	store := vstore.New()
	for file := 0; file*1000 <= n; file++ {
		buf := &bytes.Buffer{}
		buf.WriteByte(0)
		for h := file * 1000; h < (file+1)*1000 && h <= n; h++ {
			u := Genesis()
			if h > 0 {
				u = Get(BaseLabel(h))
			}
			hc := u.Header.Copy()
			if err := hc.Serialize(buf); err != nil {
				panic(err)
			}
		}
		if err := store.Write(ctx, fmt.Sprintf("headers/%08x", file), buf.Bytes(), nil); err != nil {
			panic(err)
		}
	}
	return store
}
