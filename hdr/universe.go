// Package hdr closes the real headers.Repository into a deterministic system for exploration:
// a label-addressed header universe, an operation alphabet, and a World that applies operations
// to a real repository while maintaining the reference model.
package hdr

import (
	"crypto/sha256"
	"encoding/binary"
	"fmt"
	"strings"
	"sync"

	"verif/ref"

	"github.com/tokenized/pkg/bitcoin"
	"github.com/tokenized/pkg/wire"
)

const (
	BitsL = uint32(0x1d00ffff) // unit work
	BitsH = uint32(0x1c7fff80) // about twice the work of BitsL
	BitsQ = uint32(0x1c3fffc0) // about four times the work of BitsL

	GenesisTime = uint32(1231006505)
)

// UHeader is one header of the universe.
type UHeader struct {
	Label  string
	Parent string // label of parent, "" for genesis
	Height int
	Header *wire.BlockHeader
	Hash   bitcoin.Hash32
	TxIDs  []ref.Hash // transaction set committed to by the merkle root
}

var universe sync.Map // label -> *UHeader

// Genesis returns the universe root: the real mainnet genesis header.
func Genesis() *UHeader {
	if u, ok := universe.Load("G"); ok {
		return u.(*UHeader)
	}
	root, _ := bitcoin.NewHash32FromStr("4a5e1e4baab89f3a32518a88c31bc87f618f76673e2cc77ab2127b7afdeda33b")
	h := &wire.BlockHeader{Version: 1, MerkleRoot: *root, Timestamp: GenesisTime, Bits: BitsL,
		Nonce: 2083236893}
	u := &UHeader{Label: "G", Height: 0, Header: h, Hash: *h.BlockHash()}
	universe.Store("G", u)
	return u
}

// ParentLabel returns the parent label of a label ("" for roots).
func ParentLabel(label string) string {
	if strings.HasPrefix(label, "B") && !strings.Contains(label, "/") {
		var n int
		fmt.Sscanf(label, "B%d", &n)
		if n <= 1 {
			return "G"
		}
		return fmt.Sprintf("B%d", n-1)
	}
	i := strings.LastIndexByte(label, '/')
	if i < 0 {
		return ""
	}
	return label[:i]
}

// Slot returns the slot component of a label.
func Slot(label string) string {
	i := strings.LastIndexByte(label, '/')
	if i < 0 {
		return ""
	}
	return label[i+1:]
}

// SlotBits returns the bits value used for a slot name.
func SlotBits(slot string) uint32 {
	if strings.HasPrefix(slot, "H") {
		return BitsH
	}
	if strings.HasPrefix(slot, "Q") {
		return BitsQ
	}
	return BitsL
}

// TxIDsFor derives the transaction set of a labelled block: 1 to 4 txids.
func TxIDsFor(label string) []ref.Hash {
	s := sha256.Sum256([]byte("txcount:" + label))
	n := 1 + int(s[0]%4)
	r := make([]ref.Hash, n)
	for i := range r {
		r[i] = sha256.Sum256([]byte(fmt.Sprintf("tx:%s:%d", label, i)))
	}
	return r
}

// Get returns the universe header for a label, deriving it (and its ancestors) on demand.
// Labels: "G" genesis; "B<n>" n-th header of the straight base chain above genesis;
// "<parent>/<slot>" a child, slot in {a,b,c (unit work), H (double work), x..(foreign)}.
func Get(label string) *UHeader {
	if label == "G" {
		return Genesis()
	}
	if u, ok := universe.Load(label); ok {
		return u.(*UHeader)
	}
	pl := ParentLabel(label)
	if pl == "" {
		panic("bad label " + label)
	}
	p := Get(pl)
	slot := Slot(label)
	bits := BitsL
	var nonce uint32
	if slot == "" { // base chain header
		nonce = 7
	} else {
		bits = SlotBits(slot)
		nonce = uint32(slot[0])*256 + uint32(len(slot))
	}
	txids := TxIDsFor(label)
	root := ref.MerkleRoot(txids)
	h := &wire.BlockHeader{
		Version:    1,
		PrevBlock:  p.Hash,
		MerkleRoot: bitcoin.Hash32(root),
		Timestamp:  GenesisTime + 600*uint32(p.Height+1),
		Bits:       bits,
		Nonce:      nonce,
	}
	u := &UHeader{Label: label, Parent: pl, Height: p.Height + 1, Header: h, Hash: *h.BlockHash(),
		TxIDs: txids}
	universe.Store(label, u)
	return u
}

// BaseLabel is the label of the n-th base chain header (n >= 1); BaseLabel(0) is genesis.
func BaseLabel(n int) string {
	if n == 0 {
		return "G"
	}
	return fmt.Sprintf("B%d", n)
}

// UnknownHash returns a hash that belongs to no universe header.
func UnknownHash(i int) bitcoin.Hash32 {
	var b [8]byte
	binary.LittleEndian.PutUint64(b[:], uint64(i))
	return bitcoin.Hash32(sha256.Sum256(append([]byte("unknown"), b[:]...)))
}

// RH converts to the reference hash type.
func RH(h bitcoin.Hash32) ref.Hash { return ref.Hash(h) }

// LabelOf returns the label of a universe header that has been derived already ("" if none).
func LabelOf(h bitcoin.Hash32) string {
	r := ""
	universe.Range(func(k, v any) bool {
		if v.(*UHeader).Hash == h {
			r = k.(string)
			return false
		}
		return true
	})
	return r
}

// LabelHeight returns the height of the header a label names: "G" is 0, "B<n>" is n, and every
// "/slot" component adds one.
func LabelHeight(label string, base int) int {
	parts := strings.Split(label, "/")
	h := 0
	if strings.HasPrefix(parts[0], "B") {
		fmt.Sscanf(parts[0], "B%d", &h)
	}
	return h + len(parts) - 1
}
