package hdr

import (
	"context"
	"fmt"
	"sync"

	"verif/ref"
	"verif/vstore"

	"github.com/tokenized/bitcoin_reader/headers"
	"github.com/tokenized/logger"
	"github.com/tokenized/pkg/bitcoin"
)

// Base is a straight chain of n headers above genesis, built once through the real
// ProcessHeader (so the automatic clean at heights divisible by 10000 runs for real), saved with
// the real Save. Worlds on a base clone the storage image and call the real Load.
type Base struct {
	Height int
	Store  *vstore.Store
	Nodes  map[ref.Hash]*ref.Node
	List   []*ref.Node // by height
	Tip    *ref.Node
}

var (
	baseMu sync.Mutex
	bases  = map[int]*Base{}
)

// GetBase returns (building on first use) the base chain of the given height.
func GetBase(n int) *Base {
	baseMu.Lock()
	defer baseMu.Unlock()
	if b, ok := bases[n]; ok {
		return b
	}
	ctx := logger.ContextWithNoLogger(context.Background())
	store := vstore.New()
	repo := headers.NewRepository(&headers.Config{Network: bitcoin.MainNet, MaxBranchDepth: 144}, store)
	repo.DisableDifficulty()
	repo.InitializeWithGenesis()
	b := &Base{Height: n, Store: store, Nodes: map[ref.Hash]*ref.Node{}}
	g := Genesis()
	list := make([]*ref.Node, n+1)
	list[0] = &ref.Node{Hash: RH(g.Hash), Height: 0, Bits: g.Header.Bits,
		Work: ref.WorkForBits(g.Header.Bits), Label: "G"}
	for h := 1; h <= n; h++ {
		u := Get(BaseLabel(h))
		hc := u.Header.Copy()
		if err := repo.ProcessHeader(ctx, &hc); err != nil {
			panic(fmt.Sprintf("build base %d at %d: %s", n, h, err))
		}
		list[h] = &ref.Node{Hash: RH(u.Hash), Parent: list[h-1], Height: h, Bits: u.Header.Bits,
			Label: u.Label, Seq: h}
		list[h].Work = ref.WorkForBits(u.Header.Bits)
		list[h].Work.Add(list[h].Work, list[h-1].Work)
	}
	if err := repo.Save(ctx); err != nil {
		panic(fmt.Sprintf("save base %d: %s", n, err))
	}
	for _, nd := range list {
		nd.Base = list
		b.Nodes[nd.Hash] = nd
	}
	b.List = list
	b.Tip = list[n]
	bases[n] = b
	return b
}
