package main

import (
	"bufio"
	"bytes"
	"encoding/binary"
	"encoding/hex"
	"encoding/json"
	"fmt"
	"os"
	"os/exec"
	"sort"
	"strings"
	"time"

	"verif/hdr"
	"verif/mc"
	"verif/netsim"

	"github.com/tokenized/pkg/wire"
)

// crashCase is one byte stream delivered at one stage.
type crashCase struct {
	ID    int    `json:"id"`
	Stage string `json:"stage"`          // connect | handshake | ready | ready-tx | ready-block | ready-block-pieces
	Name  string `json:"name"`           // base message + mutation
	Hex   string `json:"hex"`            // bytes delivered after the stage prefix
	Then  string `json:"then,omitempty"` // optional valid letter delivered after the mutated bytes
}

func stagePrefix(stage string) (netsim.Options, []string) {
	switch stage {
	case "connect":
		return netsim.Options{TxManager: true}, nil
	case "handshake":
		return netsim.Options{TxManager: true}, []string{"version", "verack"}
	case "connect-nosplits":
		// a repository of a network without chain split points (any network but mainnet): its
		// verification request carries an empty locator and no reply can verify the peer
		return netsim.Options{TxManager: true, NoSplits: true}, nil
	case "handshake-nosplits":
		return netsim.Options{TxManager: true, NoSplits: true, HeaderHandler: true}, []string{"version", "verack"}
	case "ready-universe":
		// a ready peer on a repository with proof-of-work checking off (own repository per case), so
		// that the labelled header universe can build fork trees through headers messages
		return netsim.Options{TxManager: true, Universe: true, HeaderHandler: true}, []string{"version", "verack", "headers[bsv-split]"}
	case "ready":
		return netsim.Options{}, []string{"version", "verack", "headers[bsv-split]"}
	case "ready-tx":
		// with a secondary headers handler installed, as for every node the node manager creates
		return netsim.Options{TxManager: true, HeaderHandler: true}, []string{"version", "verack", "headers[bsv-split]"}
	case "ready-block":
		return netsim.Options{TxManager: true, HeaderHandler: true}, []string{"version", "verack", "headers[bsv-split]", "!request-block1"}
	case "ready-block-pieces":
		// the same stage with the stream arriving in pieces (reads of at most 7 bytes)
		return netsim.Options{TxManager: true, ReadChunk: 7}, []string{"version", "verack", "headers[bsv-split]", "!request-block1"}
	}
	panic(stage)
}

// ---- case generation -------------------------------------------------------------------------

type namedBytes struct {
	name string
	b    []byte
}

var hostileVarints = []struct {
	name string
	b    []byte
}{
	{"0", []byte{0}}, {"1", []byte{1}}, {"0xfc", []byte{0xfc}}, {"0xfd-0xffff", []byte{0xfd, 0xff, 0xff}},
	{"0xfe-2^16", []byte{0xfe, 0, 0, 1, 0}}, {"0xfe-2^32-1", []byte{0xfe, 0xff, 0xff, 0xff, 0xff}},
	{"0xff-2^40", []byte{0xff, 0, 0, 0, 0, 0, 1, 0, 0}}, {"0xff-2^63", []byte{0xff, 0, 0, 0, 0, 0, 0, 0, 0x80}},
	{"0xff-2^64-1", []byte{0xff, 0xff, 0xff, 0xff, 0xff, 0xff, 0xff, 0xff, 0xff}},
	// non-canonical encodings (a small value in a long form) and encodings cut short
	{"0xfd-noncanonical-0", []byte{0xfd, 0, 0}}, {"0xfe-noncanonical-1", []byte{0xfe, 1, 0, 0, 0}},
	{"0xff-noncanonical-1", []byte{0xff, 1, 0, 0, 0, 0, 0, 0, 0}}, {"0xfd-cut", []byte{0xfd}}, {"0xff-cut", []byte{0xff, 0}},
}

func headerWithBits(bits uint32, ts uint32) []byte {
	h := *netsim.Block1
	h.Bits = bits
	h.Timestamp = ts
	return netsim.Frame(wire.CmdHeaders, netsim.HeadersPayload(&h))
}

// mutations of one correctly framed message
func frameMutations(name string, frame []byte) []namedBytes {
	var r []namedBytes
	add := func(m string, b []byte) { r = append(r, namedBytes{name + "/" + m, b}) }
	if len(frame) < 24 {
		return nil
	}
	payload := frame[24:]
	actual := uint32(len(payload))
	withLen := func(l uint32) []byte {
		b := append([]byte{}, frame...)
		binary.LittleEndian.PutUint32(b[16:20], l)
		return b
	}
	for _, l := range []uint32{0, 1, actual - 1, actual + 1, 0xfc, 0xfd, 0xffff, 0x10000, 0x2000000, 0x7fffffff, 0xffffffff} {
		if l == actual {
			continue
		}
		add(fmt.Sprintf("length=%#x", l), withLen(l))
	}
	c := append([]byte{}, frame...)
	c[20] ^= 0xff
	add("checksum-corrupt", c)
	c = append([]byte{}, frame...)
	c[0] ^= 0xff
	add("magic-corrupt", c)
	c = append([]byte{}, frame...)
	c[4], c[5] = 0xff, 0xfe
	add("command-non-utf8", c)
	for _, cut := range []int{1, 4, 10, 16, 18, 20, 22, 24, 24 + len(payload)/2, len(frame) - 1} {
		if cut > 0 && cut < len(frame) {
			add(fmt.Sprintf("truncate@%d", cut), frame[:cut])
		}
	}
	// leading count / varint of the payload replaced (frame re-made so header is consistent)
	cmd := string(bytes.TrimRight(frame[4:16], "\x00"))
	if len(payload) > 0 {
		for _, v := range hostileVarints {
			p := append(append([]byte{}, v.b...), payload[1:]...)
			add("count="+v.name, netsim.Frame(cmd, p))
		}
	}
	return r
}

func buildCases(thorough bool) []crashCase {
	var cases []crashCase
	id := 0
	addCase := func(stage, name string, b []byte, then string) {
		cases = append(cases, crashCase{ID: id, Stage: stage, Name: name, Hex: hex.EncodeToString(b), Then: then})
		id++
	}
	stages := []string{"connect", "handshake", "ready", "ready-tx", "ready-block", "ready-block-pieces", "connect-nosplits", "handshake-nosplits"}
	base := []string{"version", "verack", "headers[bsv-split]", "headers[block1]", "headers[block1,block2]", "ping", "pong", "protoconf", "reject",
		"addr[1]", "inv[tx0]", "tx[tx0]", "block[block1]", "block[block1,2tx]", "getaddr", "unknown[1025]", "extmsg/tx[tx0]", "extmsg/block[block1]", "extmsg/unknown[100]"}
	var special []namedBytes
	// extended header with hostile length and no data
	for _, cmd := range []string{wire.CmdTx, wire.CmdBlock, "whatever", wire.CmdHeaders} {
		for _, l := range []uint64{0, 1, 1 << 16, 1 << 32, 1 << 36, 1 << 40, 1 << 63, 1<<64 - 1} {
			special = append(special, namedBytes{fmt.Sprintf("extmsg/%s/length=%#x/no-data", cmd, l), netsim.ExtFrameRaw(cmd, l, nil)})
		}
	}
	// headers with every bits class and extreme timestamps
	for _, bits := range []uint32{0x00000001, 0x01010000, 0x02000100, 0x017f0000, 0x0200ff00, 0x03000001, 0x1d00ffff, 0x1d80ffff, 0x20ffffff, 0x21010000, 0x22000001, 0xff7fffff, 0xffffffff, 0} {
		for _, ts := range []uint32{0, 1231469665, 0x7fffffff, 0xffffffff} {
			special = append(special, namedBytes{fmt.Sprintf("headers/bits=%#08x/time=%#x", bits, ts), headerWithBits(bits, ts)})
		}
	}
	// headers messages whose per-header transaction count (the byte after each 80-byte header) is
	// hostile, and well-framed headers messages whose payload ends at every possible offset
	for _, first := range []struct {
		name string
		h    *wire.BlockHeader
	}{{"bsv-split", netsim.BSVSplit}, {"block1", netsim.Block1}} {
		hb := &bytes.Buffer{}
		first.h.Serialize(hb)
		for _, v := range hostileVarints {
			p := append(append([]byte{1}, hb.Bytes()...), v.b...)
			special = append(special, namedBytes{"headers[" + first.name + "]/txcount=" + v.name, netsim.Frame(wire.CmdHeaders, p)})
		}
		full := netsim.HeadersPayload(first.h)
		for k := 0; k < len(full); k++ {
			special = append(special, namedBytes{fmt.Sprintf("headers[%s]/payload-ends-at-%d", first.name, k), netsim.Frame(wire.CmdHeaders, full[:k])})
		}
	}
	// transactions with hostile input / output / script counts
	tx := func(parts ...[]byte) []byte { return bytes.Join(parts, nil) }
	ver := []byte{1, 0, 0, 0}
	outpoint := append(make([]byte, 32), 0, 0, 0, 0)
	for _, v := range hostileVarints {
		txs := map[string][]byte{
			"inputs=" + v.name:        tx(ver, v.b),
			"input-script=" + v.name:  tx(ver, []byte{1}, outpoint, v.b),
			"outputs=" + v.name:       tx(ver, []byte{1}, outpoint, []byte{0}, []byte{0xff, 0xff, 0xff, 0xff}, v.b),
			"output-script=" + v.name: tx(ver, []byte{1}, outpoint, []byte{0}, []byte{0xff, 0xff, 0xff, 0xff}, []byte{1}, make([]byte, 8), v.b),
		}
		var keys []string
		for k := range txs {
			keys = append(keys, k)
		}
		sort.Strings(keys)
		for _, k := range keys {
			special = append(special, namedBytes{"tx/" + k, netsim.Frame(wire.CmdTx, txs[k])})
			special = append(special, namedBytes{"extmsg-tx/" + k, netsim.ExtFrame(wire.CmdTx, txs[k])})
			// the same hostile transaction as the first transaction of the requested block
			blk := &bytes.Buffer{}
			netsim.Block1.Serialize(blk)
			blk.WriteByte(1)
			blk.Write(txs[k])
			special = append(special, namedBytes{"block-tx/" + k, netsim.Frame(wire.CmdBlock, blk.Bytes())})
		}
		// block whose announced transaction count is hostile
		blk := &bytes.Buffer{}
		netsim.Block1.Serialize(blk)
		blk.Write(v.b)
		special = append(special, namedBytes{"block/txcount=" + v.name + "/no-txs", netsim.Frame(wire.CmdBlock, blk.Bytes())})
	}
	// block whose frame length is smaller than its content
	{
		full := netsim.BlockPayload(netsim.Block1, netsim.TestTx(0), netsim.TestTx(1))
		f := netsim.Frame(wire.CmdBlock, full)
		binary.LittleEndian.PutUint32(f[16:20], uint32(len(full)-20))
		special = append(special, namedBytes{"block/length-shorter-than-content", f})
	}
	for _, st := range stages {
		for _, l := range base {
			for _, m := range frameMutations(l, netsim.Letters[l]) {
				addCase(st, m.name, m.b, "")
			}
		}
		for _, sp := range special {
			addCase(st, sp.name, sp.b, "")
		}
	}
	// reject messages naming every command the node sends or handles (a reject for "block" and "tx"
	// carries a hash), with every reject code, at every stage - whether or not anything of that
	// kind was ever requested from the peer
	for _, st := range stages {
		for _, cmd := range []string{"block", "tx", "headers", "getheaders", "getdata", "version", "verack", "inv", "addr", "ping", "protoconf", "sendheaders", "", "whatever"} {
			for _, code := range []wire.RejectCode{wire.RejectMalformed, wire.RejectInvalid, wire.RejectDuplicate, wire.RejectNonstandard} {
				m := wire.NewMsgReject(cmd, code, "no")
				if cmd == "block" || cmd == "tx" {
					m.Hash = *netsim.Block1.BlockHash()
				}
				special2 := netsim.Msg(m)
				addCase(st, fmt.Sprintf("reject[%s,%d]", cmd, code), special2, "ping")
			}
		}
	}
	// the same well-formed message two and three times in a row (handlers that count or refuse
	// repetitions): the connection may be closed, but the node's run must come back
	for _, st := range []string{"connect", "handshake", "ready-tx"} {
		for _, l := range []string{"protoconf", "version", "verack", "ping", "getaddr", "reject", "headers[block1]", "inv[tx0]", "tx[tx0]"} {
			b := netsim.Letters[l]
			addCase(st, l+"/twice", append(append([]byte{}, b...), b...), "")
			addCase(st, l+"/three-times", append(append(append([]byte{}, b...), b...), b...), "ping")
		}
	}
	// messages that stay incomplete (five bytes short) while the node is shut down by its owner
	for _, st := range []string{"ready-tx", "ready-block"} {
		for _, l := range []string{"tx[tx0]", "extmsg/tx[tx0]", "block[block1]", "extmsg/block[block1]", "headers[block1,block2]", "addr[1]", "inv[tx0]"} {
			b := netsim.Letters[l]
			addCase(st, l+"/five-bytes-short+node-interrupted", b[:len(b)-5], "!interrupt")
		}
	}
	// well-formed headers messages that build fork trees: every ordered triple of six short chains
	// of the labelled universe (two chains on genesis, forks off the first and second header of the
	// first chain, heavier and lighter ones): reorganisations to child, parent, sibling and cousin
	// branches all happen inside the handler goroutine of the connection
	{
		chains := [][]string{{"G/a", "G/a/a"}, {"G/H", "G/H/H"}, {"G/a/H", "G/a/H/H"}, {"G/b"}, {"G/a/a/H", "G/a/a/H/H"}, {"G/a/a/a"}, {"G/H/b", "G/H/b/H", "G/H/b/H/H"}}
		msg := func(labels []string) []byte {
			var hs []*wire.BlockHeader
			for _, l := range labels {
				hs = append(hs, hdr.Get(l).Header)
			}
			return netsim.Frame(wire.CmdHeaders, netsim.HeadersPayload(hs...))
		}
		for i, a := range chains {
			for j, b := range chains {
				for k, c := range chains {
					if i == j || j == k || i == k {
						continue
					}
					stream := append(append(append([]byte{}, msg(a)...), msg(b)...), msg(c)...)
					addCase("ready-universe", fmt.Sprintf("headers%v+headers%v+headers%v", a, b, c), stream, "ping")
				}
			}
		}
	}
	if thorough {
		// ordered pairs (mutated, valid): the mutated bytes followed by a valid message
		for _, st := range []string{"ready-tx", "ready-block"} {
			for _, l := range []string{"headers[block1]", "tx[tx0]", "block[block1]", "inv[tx0]", "extmsg/tx[tx0]"} {
				for _, m := range frameMutations(l, netsim.Letters[l]) {
					for _, then := range []string{"ping", "headers[block1]", "tx[tx1]", "block[block1]"} {
						addCase(st, m.name, m.b, then)
					}
				}
			}
		}
	}
	return cases
}

// ---- worker -----------------------------------------------------------------------------------

// crashWorker reads cases (JSON lines) from stdin, runs each on a fresh node that shares the
// repositories of a long-lived healthy witness node, and reports per case on stdout.
func crashWorker() {
	witness := netsim.Start(netsim.Options{TxManager: true})
	for _, l := range []string{"version", "verack", "headers[bsv-split]"} {
		witness.Deliver(netsim.Letters[l])
		witness.Barrier(barrierWait)
	}
	// the connections of the stages on a network without split points share a second set of repositories
	witnessNoSplits := netsim.Start(netsim.Options{TxManager: true, NoSplits: true})
	out := bufio.NewWriter(os.Stdout)
	sc := bufio.NewScanner(os.Stdin)
	sc.Buffer(make([]byte, 64<<20), 64<<20)
	for sc.Scan() {
		var c crashCase
		if json.Unmarshal(sc.Bytes(), &c) != nil {
			continue
		}
		fmt.Fprintf(out, "START %d\n", c.ID)
		out.Flush()
		opt, prefix := stagePrefix(c.Stage)
		wit := witness
		if opt.NoSplits {
			wit = witnessNoSplits
		}
		var s *netsim.Session
		if opt.Universe {
			s = netsim.Start(opt) // its own repositories: the header tree of one case must not reach the next
		} else {
			s = netsim.StartShared(opt, wit)
		}
		for _, l := range prefix {
			if isAction(l) {
				doAction(s, l)
			} else {
				s.Deliver(netsim.Letters[l])
			}
			s.Barrier(barrierWait)
		}
		b, _ := hex.DecodeString(c.Hex)
		s.Deliver(b)
		if c.Then == "!interrupt" {
			// the message stays incomplete (the peer has stopped sending, the connection is open) and
			// the embedding program shuts the node down: the handler that waits for the rest is given up
			settleNoPing(s, 2*time.Second)
			s.InterruptNode()
			s.WaitRun(5 * time.Second)
		} else if c.Then != "" {
			s.Deliver(netsim.Letters[c.Then])
		}
		r := s.Barrier(300 * time.Millisecond)
		ret := s.Finish(5 * time.Second)
		w := witness.Barrier(barrierWait)
		if !w.Pong && !w.Closed {
			// no verdict from a short wall-clock wait: a witness that is only slow (a loaded machine)
			// answers a second ping within a minute, one that is really blocked never does
			w = witness.Barrier(60 * time.Second)
		}
		fmt.Fprintf(out, "DONE %d pong=%t closed=%t stuck=%t runReturned=%t witnessPong=%t panic=%q\n", c.ID, r.Pong, r.Closed, r.Stuck, ret, w.Pong, s.RunPanic)
		out.Flush()
	}
}

// ---- parent -----------------------------------------------------------------------------------

type caseResult struct {
	done                              bool
	pong, closed, stuck, ret, witness bool
	died                              string // first line of the fatal output when the worker died on this case
}

func runWorker(cases []crashCase, results map[int]*caseResult) {
	exe, _ := os.Executable()
	for len(cases) > 0 {
		cmd := exec.Command("bash", "-c", fmt.Sprintf("ulimit -v 8000000; exec %q -crash-worker", exe))
		in := &bytes.Buffer{}
		for _, c := range cases {
			b, _ := json.Marshal(c)
			in.Write(b)
			in.WriteByte('\n')
		}
		cmd.Stdin = in
		var stdout, stderr bytes.Buffer
		cmd.Stdout, cmd.Stderr = &stdout, &stderr
		err := cmd.Run()
		started := -1
		for _, line := range strings.Split(stdout.String(), "\n") {
			var id int
			if n, _ := fmt.Sscanf(line, "START %d", &id); n == 1 {
				started = id
				continue
			}
			if strings.HasPrefix(line, "DONE ") {
				r := &caseResult{done: true}
				var p string
				fmt.Sscanf(line, "DONE %d pong=%t closed=%t stuck=%t runReturned=%t witnessPong=%t panic=%q", &id, &r.pong, &r.closed, &r.stuck, &r.ret, &r.witness, &p)
				if p != "" {
					r.died = "panic in Run: " + p
				}
				results[id] = r
			}
		}
		if err == nil {
			return
		}
		// the worker died: the case that was started and not done is the culprit
		if started == -1 || (results[started] != nil && results[started].done) {
			fmt.Fprintln(os.Stderr, "worker died outside a case:", firstFatalLine(stderr.String()))
			return
		}
		results[started] = &caseResult{died: firstFatalLine(stderr.String() + stdout.String())}
		// continue with the cases after the culprit
		idx := 0
		for i, c := range cases {
			if c.ID == started {
				idx = i + 1
			}
		}
		cases = cases[idx:]
	}
}

func firstFatalLine(s string) string {
	for _, l := range strings.Split(s, "\n") {
		if strings.HasPrefix(l, "panic:") || strings.HasPrefix(l, "fatal error:") || strings.Contains(l, "out of memory") {
			return strings.TrimSpace(l)
		}
	}
	if len(s) > 200 {
		s = s[:200]
	}
	return strings.TrimSpace(s)
}

func crashClass(msg string) string {
	switch {
	case strings.Contains(msg, "out of memory"):
		return "out-of-memory"
	case strings.Contains(msg, "makeslice"):
		return "makeslice-out-of-range"
	case strings.Contains(msg, "index out of range"):
		return "index-out-of-range"
	case strings.Contains(msg, "nil pointer"):
		return "nil-dereference"
	}
	return "other"
}

// nameClass maps a case name to the structural class of what is hostile in it, for fingerprints.
func nameClass(n string) string {
	switch {
	case strings.HasPrefix(n, "tx/"), strings.HasPrefix(n, "extmsg-tx/"), strings.HasPrefix(n, "block-tx/"), strings.HasPrefix(n, "tx[") && strings.Contains(n, "/count="):
		kind := "classic-tx-message"
		if strings.HasPrefix(n, "extmsg-tx/") {
			kind = "extended-tx-message"
		} else if strings.HasPrefix(n, "block-tx/") {
			kind = "tx-inside-requested-block"
		}
		return "transaction-decode-trusts-count|" + kind
	case strings.HasPrefix(n, "extmsg/") && strings.Contains(n, "/length="):
		return "extended-declared-length|" + n[len("extmsg/"):strings.Index(n, "/length=")]
	case strings.Contains(n, "/length="):
		return n[:strings.Index(n, "/length=")] + "|declared-length"
	case strings.Contains(n, "/count="):
		return n[:strings.Index(n, "/count=")] + "|leading-count"
	case strings.HasPrefix(n, "headers/bits="):
		return "headers|bits-and-time"
	case strings.HasPrefix(n, "block/txcount="):
		return "block|transaction-count"
	case strings.Contains(n, "/truncate@"):
		return n[:strings.Index(n, "/truncate@")] + "|truncated"
	}
	return n
}

func runC15(tier string) int {
	start := time.Now()
	cases := buildCases(tier == "thorough")
	results := map[int]*caseResult{}
	// shard over processes
	shards := 12
	done := make(chan map[int]*caseResult, shards)
	for sh := 0; sh < shards; sh++ {
		go func(sh int) {
			var mine []crashCase
			for i, c := range cases {
				if i%shards == sh {
					mine = append(mine, c)
				}
			}
			res := map[int]*caseResult{}
			runWorker(mine, res)
			done <- res
		}(sh)
	}
	for sh := 0; sh < shards; sh++ {
		for k, v := range <-done {
			results[k] = v
		}
	}
	var vs []mc.Violation
	outcomes := map[string]int{}
	nontrivial := 0
	witnessConfirmed := 0
	recheck := func(c crashCase) *caseResult {
		res := map[int]*caseResult{}
		runWorker([]crashCase{c}, res)
		return res[c.ID]
	}
	for _, c := range cases {
		r := results[c.ID]
		hist := map[string]any{"stage": c.Stage, "case": c.Name, "hex": clip(c.Hex, 400), "then": c.Then}
		if r == nil {
			outcomes["not-run"]++
			continue
		}
		nontrivial++
		switch {
		case r.died != "":
			// confirm: the same single case must kill a fresh worker again
			if r2 := recheck(c); r2 == nil || r2.died == "" {
				outcomes["died-not-reproduced"]++
				continue
			}
			outcomes["process-died"]++
			vs = append(vs, mc.Violation{Prop: "C15", Clause: "process-died", Fingerprint: "process-died|" + crashClass(r.died) + "|" + nameClass(c.Name),
				Detail: fmt.Sprintf("stage %s, %s: the process died: %s", c.Stage, c.Name, r.died), History: hist})
		case !r.ret:
			if r2 := recheck(c); r2 == nil || r2.ret || r2.died != "" {
				outcomes["run-late-not-reproduced"]++
				continue
			}
			outcomes["run-did-not-return"]++
			vs = append(vs, mc.Violation{Prop: "C15", Clause: "run-did-not-return", Fingerprint: "run-did-not-return|" + nameClass(c.Name),
				Detail: fmt.Sprintf("stage %s, %s: Run had not returned 5 s after the peer closed the connection", c.Stage, c.Name), History: hist})
		case !r.witness:
			// confirm: the same single case, alone in a fresh worker with a fresh witness, must silence
			// the witness again (a witness that ended through the node's own wall-clock timers on a
			// loaded machine stays silent for every later case of its worker)
			if witnessConfirmed >= 10 {
				outcomes["witness-affected-not-rechecked"]++
				continue
			}
			if r2 := recheck(c); r2 == nil || r2.witness || r2.died != "" {
				outcomes["witness-late-not-reproduced"]++
				continue
			}
			witnessConfirmed++
			outcomes["witness-affected"]++
			vs = append(vs, mc.Violation{Prop: "C15", Clause: "other-connection-affected", Fingerprint: "other-connection-affected|" + nameClass(c.Name),
				Detail: fmt.Sprintf("stage %s, %s: a healthy node sharing the repositories no longer answers ping", c.Stage, c.Name), History: hist})
		case r.closed:
			outcomes["closed-by-node"]++
		case r.pong:
			outcomes["in-sync"]++
		default:
			outcomes["waiting-for-declared-bytes"]++
		}
	}
	var keys []string
	for k := range outcomes {
		keys = append(keys, k)
	}
	sort.Strings(keys)
	for _, k := range keys {
		fmt.Fprintf(os.Stderr, "  %-28s %d\n", k, outcomes[k])
	}
	fmt.Fprintf(os.Stderr, "C15 cases=%d violations=%d %.1fs\n", len(cases), len(vs), time.Since(start).Seconds())
	var samples []any
	for i := 0; i < len(cases); i += len(cases)/12 + 1 {
		samples = append(samples, map[string]any{"stage": cases[i].Stage, "case": cases[i].Name, "bytes": clip(cases[i].Hex, 120)})
	}
	ev := &mc.Evidence{PropertyID: "C15", Tier: tier, Level: "exploration",
		Coverage: map[string]any{
			"evaluations":                   len(cases),
			"distinct_nontrivial":           nontrivial,
			"rule":                          "complete structured enumeration: 8 session stages (plus a ninth, a ready peer on a repository with proof-of-work checking off, which receives every ordered triple of seven short header chains of the labelled universe as three well-formed headers messages: reorganisations to child, parent, sibling and cousin branches inside the connection's handler goroutine) (before handshake, handshake complete, ready, ready with tx manager, ready with a block requested, the latter with the stream delivered in pieces of at most 7 bytes, and before / after the handshake on a repository without chain split points - any network but mainnet - whose verification request has an empty locator) x {19 base messages x frame mutations (11 declared lengths, corrupt checksum / magic / command, truncation at every header field boundary and inside the payload, 9 hostile values for the leading count), extended headers for tx/block/headers/unknown with 8 declared lengths up to 2^64-1 and no data, headers with 14 bits encodings x 4 timestamps, headers with 14 hostile per-header transaction counts and with a well-framed payload ending at every offset 0..81, transactions (classic, extended, inside the requested block) with 9 hostile values for each of input count / input script length / output count / output script length, blocks with hostile transaction counts, a block whose frame length is shorter than its content}; thorough adds ordered (mutated, valid) pairs. Every case is one run of a real node (sharing repositories with a healthy witness node) in a worker process under an 8 GB address-space limit; every case is a distinct hostile input (all non-trivial); a dying worker identifies the case, which is re-run alone to confirm",
			"exhaustive":                    true,
			"outcomes":                      outcomes,
			"samples":                       samples,
			"worker_address_space_limit_kb": 8000000,
		},
		Assumptions: []string{
			"a crash is the worker process dying (panic / fatal error); recovered errors and closed connections are fine",
			"'Run returns' is judged 5 s after the peer closes and only reported if it reproduces",
			"scheduling inside the node is free-running",
		},
		Wall: time.Since(start).Seconds()}
	return mc.Finish(ev, vs)
}

func clip(s string, n int) string {
	if len(s) > n {
		return s[:n] + fmt.Sprintf("...(%d hex chars)", len(s))
	}
	return s
}
