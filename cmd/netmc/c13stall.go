package main

// C13, stalled-peer part: a peer that completes the handshake and proves its chain but has stopped
// reading (the node's writes block). A verify-only connection must still disconnect as soon as
// verification succeeds, and nothing the peer sends afterwards may reach the repositories.

import (
	"fmt"
	"os"
	"strings"
	"time"

	"verif/mc"
	"verif/netsim"
)

var stallAfterLetters = []string{"addr[1]", "headers[block1]", "inv[tx0]", "tx[tx0]", "ping"}

// settleNoPing waits until the node has consumed everything delivered and is blocked reading
// again (or the connection is closed), without the ping barrier (a stalled peer gets no pong).
func settleNoPing(s *netsim.Session, max time.Duration) {
	start := time.Now()
	stable := 0
	last := ""
	for time.Since(start) < max {
		st := s.Conn.Status()
		if st.ClosedByNode || s.RunReturned() {
			return
		}
		d := s.Node.VerifDump()
		if st.Waiting && st.Pending == 0 && d == last {
			stable++
			if stable >= 20 {
				return
			}
		} else {
			stable = 0
		}
		last = d
		time.Sleep(50 * time.Microsecond)
	}
}

func stalledRun(prop string, role netsim.Options, stallAt int, hist []string) mc.Result[string] {
	s := netsim.Start(role)
	s.Barrier(barrierWait) // the node is up and has sent its version (the peer still reads)
	script := append([]string{"version", "verack", "headers[bsv-split]"}, hist...)
	var vs []mc.Violation
	fail := func(clause, fp, detail string) {
		vs = append(vs, mc.Violation{Prop: prop, Clause: clause, Fingerprint: clause + "|" + fp,
			Detail:  detail + fmt.Sprintf(" [peer stops reading before letter %d of: %s]", stallAt, strings.Join(script, " ")),
			History: map[string]any{"scenario": "stalled-peer", "role": role, "stall_at": stallAt, "letters": hist}})
	}
	for i, l := range script {
		if i == stallAt {
			s.Conn.StallWrites()
		}
		if st := s.Conn.Status(); st.ClosedByNode || s.RunReturned() {
			break
		}
		s.Deliver(netsim.Letters[l])
		settleNoPing(s, 2*time.Second)
	}
	verified := s.Node.Verified()
	outcome := "stalled/not-verified"
	if verified {
		outcome = "stalled/verified"
		if role.VerifyOnly {
			// the disconnect follows verification at once; 3 s is several orders of magnitude more
			// than it takes, and the finding must reproduce before it is reported
			t0 := time.Now()
			for time.Since(t0) < 3*time.Second {
				if st := s.Conn.Status(); st.ClosedByNode || s.RunReturned() {
					break
				}
				time.Sleep(200 * time.Microsecond)
			}
			if st := s.Conn.Status(); !st.ClosedByNode && !s.RunReturned() {
				fail("verify-only-stays-connected", fmt.Sprintf("blocked-writes-%t", s.Conn.BlockedWrites() > 0),
					"verify-only node is verified but the connection is still open 3 s later while its writes are blocked")
			}
			process, _ := s.Headers.Counts()
			adds, _, _ := s.Peers.Counts()
			if process != 0 || adds != 0 {
				fail("verify-only-consumed-data", "", fmt.Sprintf("verify-only node passed peer data on after verification: ProcessHeader=%d Add=%d", process, adds))
			}
		}
	} else {
		process, _ := s.Headers.Counts()
		adds, scores, _ := s.Peers.Counts()
		if process != 0 || adds != 0 || scores != 0 {
			fail("repositories-reached-unverified", "", fmt.Sprintf("ProcessHeader=%d Add=%d UpdateScore=%d for an unverified peer", process, adds, scores))
		}
	}
	if s.RunPanic != "" {
		fail("panic", "", "node panicked: "+s.RunPanic)
	}
	s.Finish(3 * time.Second)
	r := mc.Result[string]{Violations: vs, Checks: 1, Key: fmt.Sprintf("%v|%d|%s", role, stallAt, strings.Join(hist, " ")), Outcomes: []string{outcome}}
	if len(vs) == 0 && len(hist) < 2 {
		r.Next = stallAfterLetters
	}
	return r
}

// runStalledPart explores, for verify-only and full nodes, every point at which the peer stops
// reading (before the version, the verack, the verifying headers reply, or after it) and every
// sequence of up to two further messages.
func runStalledPart(prop string) (*mc.Stats, map[string]any, []mc.Violation) {
	total := &mc.Stats{Exhaustive: true}
	var out []mc.Violation
	for _, role := range []netsim.Options{{VerifyOnly: true}, {TxManager: true}} {
		for stallAt := 0; stallAt <= 3; stallAt++ {
			role, stallAt := role, stallAt
			st, vs := mc.Search(func(h []string) mc.Result[string] { return stalledRun(prop, role, stallAt, h) }, 0, time.Now().Add(5*time.Minute), 97)
			seen := map[string]bool{}
			for _, v := range vs {
				if seen[v.Fingerprint] {
					continue
				}
				seen[v.Fingerprint] = true
				h := v.History.(map[string]any)["letters"].([]string)
				ok := true
				for i := 0; i < 3 && ok; i++ {
					ok = false
					for _, w := range stalledRun(prop, role, stallAt, h).Violations {
						if w.Fingerprint == v.Fingerprint {
							ok = true
						}
					}
				}
				if ok {
					out = append(out, v)
				} else {
					fmt.Fprintf(os.Stderr, "note: %s did not reproduce 3/3, not reported\n", v.Fingerprint)
				}
			}
			if !st.Exhaustive {
				total.Exhaustive = false
			}
			var samples []any
			for _, s := range st.Samples {
				samples = append(samples, map[string]any{"scenario": "stalled-peer", "role": role, "stall_at": stallAt, "letters": strings.Join(s.([]string), " ")})
			}
			st.Samples = samples
			total.Merge(st)
		}
	}
	fmt.Fprintf(os.Stderr, "%s %-34s states=%d transitions=%d exhaustive=%t violations=%d\n", prop, "stalled-peer", total.States, total.Transitions, total.Exhaustive, len(out))
	desc := map[string]any{"scenario": "stalled-peer", "roles": []string{"verify-only", "full+txmanager"}, "stall_points": 4, "letters_after_verification": stallAfterLetters,
		"depth": 2, "states": total.States, "transitions": total.Transitions, "exhaustive": total.Exhaustive}
	return total, desc, out
}
