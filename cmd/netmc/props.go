package main

import (
	"context"
	"encoding/binary"
	"fmt"
	"os"
	"strings"

	"verif/mc"
	"verif/netsim"

	"github.com/tokenized/pkg/wire"
)

type ctxT = context.Context

var (
	handshakeLetters = []string{"version", "verack"}
	headersLetters   = []string{"headers[bsv-split]", "headers[bch-split]", "headers[block1]", "headers[unknown]", "headers[]",
		"headers[bsv-split,unknown]", "headers[block1,block2]", "headers[2000x-unknown]"}
	dataLetters = []string{"addr[1]", "addr[1000]", "inv[tx0]", "inv[tx0,tx1]", "inv[block]", "tx[tx0]", "block[block1]",
		"extmsg/tx[tx0]", "extmsg/block[block1]", "extmsg/unknown[100]", "getaddr", "protoconf", "reject", "sendheaders", "pong",
		"unknown[0]", "unknown[1025]", "getheaders", "getdata", "notfound"}
)

func fullAlphabet() []string { return append([]string{}, netsim.LetterNames...) }

func without(list []string, drop ...string) []string {
	var r []string
	for _, l := range list {
		keep := true
		for _, d := range drop {
			if l == d {
				keep = false
			}
		}
		if keep {
			r = append(r, l)
		}
	}
	return r
}

func scenarios(prop string, thorough bool) []*Scenario {
	pick := func(q, t int) int {
		if thorough {
			return t
		}
		return q
	}
	var r []*Scenario
	switch prop {
	case "C13":
		alpha := append(append(append([]string{}, handshakeLetters...), headersLetters...), dataLetters...)
		alpha = append(alpha, "headers[unknown]+unframed[bsv-split]")
		for _, role := range []netsim.Options{{TxManager: true, Manager: true}, {Manager: true}, {VerifyOnly: true, Manager: true}} {
			r = append(r, &Scenario{Name: roleName(role) + "/from-connect", Opt: role, Alphabet: alpha, Depth: pick(4, 5), oracle: oracleC13})
			r = append(r, &Scenario{Name: roleName(role) + "/after-handshake", Opt: role, Prefix: []string{"version", "verack"}, Alphabet: alpha, Depth: pick(3, 4), oracle: oracleC13})
		}
		// a repository without any chain split points (empty verify-only locator)
		r = append(r, &Scenario{Name: "full+txmanager/no-split-table/from-connect", Opt: netsim.Options{TxManager: true, Manager: true, NoSplits: true}, Alphabet: alpha, Depth: pick(3, 4), oracle: oracleC13})
		// a repository that holds the headers its own verification locator names, as every
		// synchronised one does (synthetic split at height 2 over the preloaded blocks 1 and 2): what
		// the peer has to show is the header after them - not an empty list, not a list that starts elsewhere
		for _, role := range []netsim.Options{{TxManager: true, Manager: true, Preload: true, SynthSplit: true}, {VerifyOnly: true, Manager: true, Preload: true, SynthSplit: true}} {
			r = append(r, &Scenario{Name: roleName(role) + "/locator-headers-held/after-handshake", Opt: role, Prefix: []string{"version", "verack"},
				Alphabet: []string{"headers[]", "headers[block2]", "headers[block2,unknown]", "headers[block1,block2]", "headers[block1]", "headers[unknown]", "addr[1]", "inv[tx0]", "ping", "version"},
				Depth:    pick(3, 4), oracle: oracleC13})
		}
		// the same with the stream arriving in pieces (reads of at most 7 bytes)
		r = append(r, &Scenario{Name: "full+txmanager/from-connect/short-reads-7", Opt: netsim.Options{TxManager: true, Manager: true, ReadChunk: 7}, Alphabet: alpha, Depth: pick(3, 4), oracle: oracleC13})
		// the transaction manager is attached while the node is running (an API call order the
		// embedding program is free to use): at any point of the session, to the node or through
		// the node manager
		late := append(append([]string{}, alpha...), "!attach-txmanager", "!attach-txmanager-via-manager")
		r = append(r, &Scenario{Name: "full+late-txmanager/from-connect", Opt: netsim.Options{TxManager: true, LateTxManager: true, Manager: true}, Alphabet: late, Depth: pick(4, 5), oracle: oracleC13})
		r = append(r, &Scenario{Name: "full+late-txmanager/after-handshake", Opt: netsim.Options{TxManager: true, LateTxManager: true, Manager: true}, Prefix: []string{"version", "verack"}, Alphabet: late, Depth: pick(3, 4), oracle: oracleC13})
		// a peer that stays silent until the node's handshake timer (3 s) has expired - after nothing,
		// after its version only, after its verack only - and then goes on with the protocol
		for _, pre := range [][]string{{}, {"version"}, {"verack"}} {
			for _, role := range []netsim.Options{{TxManager: true, Manager: true}, {VerifyOnly: true, Manager: true}} {
				r = append(r, &Scenario{Name: roleName(role) + "/handshake-timeout-after-[" + strings.Join(pre, ",") + "]", Opt: role,
					Prefix:   append(append([]string{}, pre...), "!wait-handshake-timeout"),
					Alphabet: []string{"headers[bsv-split]", "verack", "version", "headers[block1,block2]", "addr[1]", "inv[tx0]"}, Depth: 2, oracle: oracleC13})
			}
		}
	case "C03":
		alpha := append(append([]string{}, handshakeLetters...), headersLetters...)
		alpha = append(alpha, "ping", "protoconf", "addr[1]", "inv[tx0]", "unknown[1025]")
		for _, role := range []netsim.Options{{TxManager: true}, {VerifyOnly: true}} {
			r = append(r, &Scenario{Name: roleName(role) + "/from-connect", Opt: role, Alphabet: alpha, Depth: pick(5, 6), oracle: oracleC03})
			// the same with a repository that already holds the headers some replies start with
			pre := role
			pre.Preload = true
			r = append(r, &Scenario{Name: roleName(role) + "/known-headers/after-handshake", Opt: pre, Prefix: []string{"version", "verack"},
				Alphabet: append(append([]string{}, headersLetters...), "ping", "addr[1]"), Depth: pick(2, 3), oracle: oracleC03})
		}
		// the same with the stream arriving in pieces (reads of at most 7 bytes)
		r = append(r, &Scenario{Name: "verify-only/from-connect/short-reads-7", Opt: netsim.Options{VerifyOnly: true, ReadChunk: 7}, Alphabet: alpha, Depth: pick(4, 5), oracle: oracleC03})
	case "C14":
		ready := []string{"version", "verack", "headers[bsv-split]"}
		alpha := fullAlphabet()
		for _, role := range []netsim.Options{{TxManager: true}, {}} {
			r = append(r, &Scenario{Name: roleName(role) + "/ready", Opt: role, Prefix: ready, Alphabet: alpha, Depth: pick(2, 3),
				Extend: []string{"version", "verack", "protoconf", "getaddr", "inv[tx0]", "tx[tx0]", "headers[block1]"}, ExtendDepth: 13, oracle: oracleC14})
			r = append(r, &Scenario{Name: roleName(role) + "/ready+block-requested", Opt: role, Prefix: append(append([]string{}, ready...), "!request-block1"),
				Alphabet: alpha, Depth: pick(2, 3), oracle: oracleC14})
		}
		// a block that was requested and cancelled again before the peer answered: the peer delivers
		// it anyway (or anything else)
		r = append(r, &Scenario{Name: "full+txmanager/ready+block-requested-then-cancelled", Opt: netsim.Options{TxManager: true},
			Prefix: append(append([]string{}, ready...), "!request-block1", "!cancel-block1"), Alphabet: alpha, Depth: pick(1, 2), oracle: oracleC14})
		// the requested block arrives in two parts with a pause in between (after the message header,
		// inside and after the block header, after the transaction count, inside a transaction, before
		// the last byte), and the request is cancelled during the pause - by another goroutine, while
		// the node is blocked reading - or not; classic and extended framing, then further traffic
		{
			var paused []string
			for _, base := range []string{"block[block1]", "block[block1,2tx]", "extmsg/block[block1]"} {
				n := len(netsim.Letters[base])
				hdr := 24
				if strings.HasPrefix(base, "extmsg/") {
					hdr = 44
				}
				for _, k := range []int{24, hdr + 40, hdr + 80, hdr + 81, hdr + 100, n - 1} {
					if k <= 0 || k >= n {
						continue
					}
					paused = append(paused, fmt.Sprintf("%s@%d", base, k), fmt.Sprintf("%s@%d+!cancel-block1", base, k))
				}
			}
			r = append(r, &Scenario{Name: "full+txmanager/ready+block-requested/paused-delivery+cancel", Opt: netsim.Options{TxManager: true},
				Prefix: append(append([]string{}, ready...), "!request-block1"), Alphabet: paused, Depth: 1,
				Extend: []string{"ping", "tx[tx0]", "block[block1]", "headers[block1]"}, ExtendDepth: 2, oracle: oracleC14})
		}
		// other connections of the same process failed inside a message first (peer gone mid-payload,
		// wrong checksum, undecodable payload): the examined connection must not notice
		for _, kind := range []string{"truncated", "checksum", "undecodable"} {
			r = append(r, &Scenario{Name: "full+txmanager/ready/after-failed-connections-" + kind, Opt: netsim.Options{TxManager: true}, Prefix: ready, Poison: kind,
				Alphabet: []string{"ping", "addr[1]", "tx[tx0]", "protoconf", "inv[tx0]", "headers[block1]"}, Depth: 1, oracle: oracleC14})
		}
		// the same stream arriving in pieces (short reads): framing must not depend on how the bytes
		// are delivered. 7 does not divide the 24-byte header; 1 is the extreme (without the 4 MiB letter).
		for _, chunk := range []int{7, 1} {
			a := alpha
			if chunk == 1 {
				a = without(alpha, "unknown[4194304]")
			}
			role := netsim.Options{TxManager: true, ReadChunk: chunk}
			r = append(r, &Scenario{Name: fmt.Sprintf("full+txmanager/ready/short-reads-%d", chunk), Opt: role, Prefix: ready, Alphabet: a, Depth: 2, oracle: oracleC14})
			r = append(r, &Scenario{Name: fmt.Sprintf("full+txmanager/ready+block-requested/short-reads-%d", chunk), Opt: role,
				Prefix: append(append([]string{}, ready...), "!request-block1"), Alphabet: a, Depth: 1, oracle: oracleC14})
		}
		// long headers messages that the repository accepts (proof-of-work checking off): list sizes
		// on both sides of the one-byte / three-byte count boundary, in both orders, with other traffic
		r = append(r, &Scenario{Name: "full+txmanager/ready/long-accepted-headers", Opt: netsim.Options{TxManager: true, Universe: true}, Prefix: ready,
			Alphabet: []string{"headers[universe-chain-252]", "headers[universe-chain-253]", "headers[universe-chain-300]", "headers[]", "ping", "inv[tx0]", "unknown[1024]"}, Depth: pick(2, 3), oracle: oracleC14})
		// a secondary headers handler is installed (as the node manager does for every node): the
		// verification reply and later headers messages are teed to it while the node reads only what
		// it needs; replies of 1, 2, 30 and 2000 headers, delivered whole and in pieces that do not
		// line up with the 1024-byte steps in which the unread rest of a message is skipped
		for _, chunk := range []int{0, 7, 700} {
			role := netsim.Options{TxManager: true, HeaderHandler: true, ReadChunk: chunk}
			r = append(r, &Scenario{Name: fmt.Sprintf("full+txmanager+header-handler/verification-reply/reads-%d", chunk), Opt: role, Prefix: []string{"version", "verack"},
				Alphabet: []string{"headers[bsv-split,29x-unknown]", "headers[bsv-split,unknown]", "headers[bsv-split]", "headers[block1,block2]", "headers[2000x-unknown]", "headers[]", "ping", "inv[tx0]", "unknown[1025]"},
				Depth:    2, oracle: oracleC14})
		}
		r = append(r, &Scenario{Name: "full/handshake-complete-unverified", Opt: netsim.Options{TxManager: true}, Prefix: []string{"version", "verack"},
			Alphabet: without(alpha), Depth: pick(2, 3), Extend: []string{"version", "verack"}, ExtendDepth: 13, oracle: oracleC14})
	}
	return r
}

func roleName(o netsim.Options) string {
	switch {
	case o.VerifyOnly:
		return "verify-only"
	case o.TxManager:
		return "full+txmanager"
	}
	return "full"
}

// ---------------------------------------------------------------------------------------------
// C13: a peer can do nothing before it is verified.

func oracleC13(o *obs) []mc.Violation {
	var vs []mc.Violation
	if o.s.RunPanic != "" {
		return []mc.Violation{fail(o, "panic", "", "node panicked: "+o.s.RunPanic)}
	}
	if o.verified {
		// the peer must have completed the version/verack handshake before the headers message
		// that verified it was delivered
		version, verack, handshakeFirst := false, false, false
		for _, l := range o.all {
			if l == "version" {
				version = true
			}
			if l == "verack" {
				verack = true
			}
			if strings.HasPrefix(l, "headers[bsv-split") && version && verack {
				handshakeFirst = true
			}
		}
		if o.sc.Opt.SynthSplit {
			// the chain is identified by block 2: the verifying reply starts with it
			handshakeFirst = false
			version, verack = false, false
			for _, l := range o.all {
				version = version || l == "version"
				verack = verack || l == "verack"
				if strings.HasPrefix(l, "headers[block2") && version && verack {
					handshakeFirst = true
				}
			}
		}
		if o.sc.Opt.NoSplits {
			// a repository without split points names no header that identifies its chain: its
			// VerifyHeader accepts nothing, so no peer of such a repository is ever verified -
			// whatever other connections of the process (on other repositories) have been shown
			vs = append(vs, fail(o, "verified-on-a-repository-that-verifies-nothing", "", "the peer is treated as verified although its node's repository has no split point and accepts no header as proof of the chain"))
			handshakeFirst = false
			version, verack = false, false
			for _, l := range o.all {
				version = version || l == "version"
				verack = verack || l == "verack"
				if strings.HasPrefix(l, "headers[") && version && verack {
					handshakeFirst = true
				}
			}
		}
		if !handshakeFirst {
			vs = append(vs, fail(o, "verified-without-handshake", fmt.Sprintf("version-%t-verack-%t", version, verack),
				"the peer is treated as verified although it never completed the version/verack handshake before its headers reply"))
		}
		// verify-only: the connection must be closed right after the successful verification
		if o.sc.Opt.VerifyOnly {
			if o.closedAt == -1 {
				vs = append(vs, fail(o, "verify-only-stays-connected", "", "verify-only node is verified but the connection is still open"))
			}
			if o.process != 0 || o.adds != 0 || o.processed != 0 || o.txEntries != 0 {
				vs = append(vs, fail(o, "verify-only-consumed-data", "", fmt.Sprintf("verify-only node passed peer data on: ProcessHeader=%d Add=%d txs=%d", o.process, o.adds, o.processed)))
			}
		}
		return vs
	}
	// not verified: nothing may have reached the repositories
	if o.process != 0 {
		vs = append(vs, fail(o, "header-repository-reached", "", fmt.Sprintf("ProcessHeader called %d times for an unverified peer", o.process)))
	}
	if o.adds != 0 || o.scores != 0 {
		vs = append(vs, fail(o, "peer-book-reached", "", fmt.Sprintf("peer book Add=%d UpdateScore=%d for an unverified peer", o.adds, o.scores)))
	}
	if o.processed != 0 || o.txEntries != 0 {
		vs = append(vs, fail(o, "tx-manager-reached", "", fmt.Sprintf("transactions processed=%d, tx manager entries=%d for an unverified peer", o.processed, o.txEntries)))
	}
	getheaders := 0
	for _, c := range o.sent {
		switch c {
		case wire.CmdVersion, wire.CmdVerAck, wire.CmdPing, wire.CmdPong, wire.CmdProtoconf:
		case wire.CmdGetHeaders:
			getheaders++
		default:
			vs = append(vs, fail(o, "request-sent-to-unverified-peer", c, "the node sent '"+c+"' to an unverified peer"))
		}
	}
	if getheaders > 1 {
		vs = append(vs, fail(o, "request-sent-to-unverified-peer", "getheaders", fmt.Sprintf("%d getheaders sent to an unverified peer (only the verification request is allowed)", getheaders)))
	}
	if o.managerPicked {
		vs = append(vs, fail(o, "manager-selected-unverified-node", "", "the node manager sent a request through a node that is not verified"))
	}
	if o.ready {
		vs = append(vs, fail(o, "ready-but-unverified", "", "IsReady() is true while Verified() is false"))
	}
	return vs
}

// ---------------------------------------------------------------------------------------------
// C03 (peer part): verified iff the first header of the verification reply is the BSV split header.

func oracleC03(o *obs) []mc.Violation {
	if o.s.RunPanic != "" {
		return []mc.Violation{fail(o, "panic", "", "node panicked: "+o.s.RunPanic)}
	}
	// model
	version, verack := false, false
	complete := false
	decided := false // the first headers message after completion has been seen
	expectVerified := false
	brokenEarly := false // something before the decision closed the connection or a headers message arrived early
	for i, l := range o.all {
		closedHere := o.closedAt == i
		switch {
		case l == "version":
			version = true
		case l == "verack":
			verack = true
		case strings.HasPrefix(l, "headers["):
			if !complete {
				brokenEarly = true // not a reply to the verification request
			} else if !decided {
				decided = true
				expectVerified = !brokenEarly && strings.HasPrefix(l, "headers[bsv-split")
			}
		}
		if version && verack {
			complete = true
		}
		if closedHere && !decided {
			brokenEarly = true
		}
	}
	var vs []mc.Violation
	if o.verified && !expectVerified {
		vs = append(vs, fail(o, "verified-without-bsv-header", "", "the peer is treated as verified although the first header of the verification reply was not the BSV split header"))
	}
	if expectVerified && !o.verified {
		vs = append(vs, fail(o, "bsv-peer-not-verified", "", "the first header of the verification reply was the BSV split header but the peer is not verified"))
	}
	if decided && !expectVerified && !brokenEarly && o.closedAt == -1 {
		vs = append(vs, fail(o, "wrong-chain-peer-stays-connected", "", "a non-BSV verification reply left the peer connected"))
	}
	if expectVerified && !o.sc.Opt.VerifyOnly && o.closedAt == -1 && !o.ready {
		vs = append(vs, fail(o, "verified-not-ready", "", "verified full node is not ready"))
	}
	if o.verify > 1 {
		vs = append(vs, fail(o, "verified-twice", "", "VerifyHeader consulted more than once"))
	}
	return vs
}

// ---------------------------------------------------------------------------------------------
// C14: framing never desynchronises: after every sequence the barrier ping is answered while the
// connection is up.

func oracleC14(o *obs) []mc.Violation {
	if o.s.RunPanic != "" {
		return []mc.Violation{fail(o, "panic", "", "node panicked: "+o.s.RunPanic)}
	}
	var vs []mc.Violation
	// every byte the harness sends is part of a correctly framed message with the right magic and
	// checksum, so an error about network magic / checksum / command characters, or a pong for a
	// nonce that was only ever present inside a payload, is conclusive evidence that the node parsed
	// a message from the middle of another one
	if err := o.s.RunErr; err != nil && o.runBack {
		msg := err.Error()
		if os.Getenv("VERIF_DEBUG_RUNERR") != "" {
			fmt.Fprintf(os.Stderr, "RUNERR %s | %v\n", msg, o.all)
		}
		for _, sign := range []string{"Wrong Network", "bad checksum", "Invalid command characters"} {
			if strings.Contains(msg, sign) {
				last := "?"
				if o.closedAt >= 0 && o.closedAt < len(o.all) {
					last = o.all[o.closedAt]
				}
				vs = append(vs, fail(o, "desynchronised", letterClass(last)+"|"+strings.ReplaceAll(sign, " ", "-"),
					fmt.Sprintf("after '%s' the node failed with %q: it parsed a message header from payload bytes", last, msg)))
				break
			}
		}
	}
	// likewise the payload of every message the harness sends decodes: a decoding / short-read error
	// means the node did not decode the message from its own first byte to its own last one
	if err := o.s.RunErr; err != nil && o.runBack && len(vs) == 0 {
		msg := err.Error()
		for _, sign := range []string{"decode", "EOF", "payload"} {
			if strings.Contains(msg, sign) {
				last := "?"
				if o.closedAt >= 0 && o.closedAt < len(o.all) {
					last = o.all[o.closedAt]
				}
				vs = append(vs, fail(o, "well-formed-message-rejected", letterClass(last)+"|"+sign,
					fmt.Sprintf("after '%s' the node failed with %q although every message sent was complete and well formed", last, msg)))
				break
			}
		}
	}
	for _, f := range o.s.Frames {
		if f.Command == wire.CmdPong && len(f.Payload) == 8 {
			if n := binary.LittleEndian.Uint64(f.Payload); n == netsim.SmuggledNonce {
				vs = append(vs, fail(o, "reply-to-payload-bytes", "pong", "the node answered a ping that was never sent as a message (it only exists inside the payload of another message)"))
				break
			}
		}
	}
	if len(vs) > 0 {
		return vs
	}
	if o.stuckAt == -1 {
		return nil
	}
	last := o.all[o.stuckAt]
	r := o.results[len(o.results)-1]
	st := o.s.Conn.Status()
	return []mc.Violation{fail(o, "no-pong-while-connected", letterClass(last),
		fmt.Sprintf("after '%s' the ping was not answered within %v and the connection is still up (bytes written %d, consumed %d, node reading: %t, blocked at %s)",
			last, barrierWait, st.Written, st.Consumed, st.Waiting, r.Where))}
}

func letterClass(l string) string {
	if i := strings.Index(l, "["); i > 0 {
		return l[:i]
	}
	return l
}
