package main

// C19, wire part: what a getheaders message carries when it reaches the peer must be the locator
// the repository gave when the request was made - also when the request waits in the node's
// outgoing queue (the peer reads slowly) while the chain changes and further requests are made.

import (
	"fmt"
	"os"
	"strings"
	"time"

	"verif/hdr"
	"verif/mc"
	"verif/netsim"

	"github.com/tokenized/pkg/bitcoin"
	"github.com/tokenized/pkg/wire"
)

var wireOps = []string{"req", "ext", "fork", "mark"}

func parseGetHeaders(p []byte) ([]bitcoin.Hash32, bool) {
	if len(p) < 5 {
		return nil, false
	}
	p = p[4:]
	n := int(p[0])
	if p[0] >= 0xfd {
		return nil, false
	}
	p = p[1:]
	if len(p) != (n+1)*32 {
		return nil, false
	}
	r := make([]bitcoin.Hash32, n)
	for i := range r {
		copy(r[i][:], p[i*32:])
	}
	return r, true
}

func hashesString(l []bitcoin.Hash32) string {
	s := make([]string, len(l))
	for i, h := range l {
		s[i] = h.String()[:8]
	}
	return strings.Join(s, ",")
}

// wireRun: stallBeforeVerify: the peer stops reading before its verifying headers reply (so the
// requests made by accept queue up as well); otherwise it stops once the node is ready.
func wireRun(prop string, stallBeforeVerify bool, hist []string) mc.Result[string] {
	s := netsim.Start(netsim.Options{TxManager: true, Universe: true})
	repo := s.Headers.Repository
	var vs []mc.Violation
	fail := func(clause, fp, detail string) {
		vs = append(vs, mc.Violation{Prop: prop, Clause: clause, Fingerprint: clause + "|" + fp,
			Detail:  detail + fmt.Sprintf(" [stall before verification: %t; operations: %s]", stallBeforeVerify, strings.Join(hist, " ")),
			History: map[string]any{"scenario": "wire-locator", "stall_before_verify": stallBeforeVerify, "letters": hist}})
	}
	// a chain of 8 unit-work headers above genesis
	tip := "G"
	submit := func(l string) {
		hc := hdr.Get(l).Header.Copy()
		repo.ProcessHeader(s.Ctx, &hc)
	}
	for i := 0; i < 8; i++ {
		tip += "/a"
		submit(tip)
	}
	s.Barrier(barrierWait)
	for _, l := range []string{"version", "verack"} {
		s.Deliver(netsim.Letters[l])
		s.Barrier(barrierWait)
	}
	for t0 := time.Now(); !s.Node.HandshakeIsComplete() && time.Since(t0) < 2*time.Second; {
		time.Sleep(50 * time.Microsecond)
	}
	s.Barrier(barrierWait)
	var expected [][]bitcoin.Hash32
	expect := func(max int) {
		l, _ := repo.GetLocatorHashes(s.Ctx, max)
		expected = append(expected, append([]bitcoin.Hash32{}, l...))
	}
	s.Collect()
	before := len(s.Frames)
	if stallBeforeVerify {
		s.Conn.StallWrites()
		expect(10) // the initial request made by accept
		s.Deliver(netsim.Letters["headers[bsv-split]"])
		settleNoPing(s, 2*time.Second)
	} else {
		s.Deliver(netsim.Letters["headers[bsv-split]"])
		s.Barrier(barrierWait)
		s.Collect()
		before = len(s.Frames)
		s.Conn.StallWrites()
	}
	if !s.Node.IsReady() {
		s.Finish(3 * time.Second)
		return mc.Result[string]{Key: "not-ready", Outcomes: []string{"wire/not-ready"}, Checks: 1}
	}
	forks := 0
	for _, op := range hist {
		cur := hdr.LabelOf(repo.LastHash())
		switch op {
		case "req":
			expect(3)
			s.Node.RequestHeaders(s.Ctx)
		case "ext":
			if cur != "" {
				submit(cur + "/a")
			}
		case "fork":
			// two headers (the first with double work) from the grandparent of the tip: overtakes
			if gp := hdr.ParentLabel(hdr.ParentLabel(cur)); cur != "" && gp != "" {
				forks++
				slot := fmt.Sprintf("H%d", forks)
				submit(gp + "/" + slot)
				submit(gp + "/" + slot + "/a")
			}
		case "mark":
			repo.MarkHeaderInvalid(s.Ctx, repo.LastHash())
		}
	}
	s.Conn.ResumeWrites()
	s.Barrier(barrierWait)
	s.Collect()
	var got [][]bitcoin.Hash32
	for _, f := range s.Frames[before:] {
		if f.Command == wire.CmdGetHeaders {
			l, ok := parseGetHeaders(f.Payload)
			if !ok {
				fail("getheaders-malformed", "", "a getheaders message on the wire cannot be parsed")
				continue
			}
			got = append(got, l)
		}
	}
	outcome := fmt.Sprintf("wire/requests=%d", len(got))
	if len(vs) == 0 {
		if len(got) != len(expected) {
			fail("getheaders-count", fmt.Sprintf("%d-of-%d", len(got), len(expected)), fmt.Sprintf("%d getheaders messages reached the peer for %d requests", len(got), len(expected)))
		} else {
			for i := range got {
				if hashesString(got[i]) != hashesString(expected[i]) || len(got[i]) != len(expected[i]) {
					fail("wire-locator-differs", fmt.Sprintf("request-%d-of-%d", i, len(got)), fmt.Sprintf(
						"getheaders %d reached the peer with locator [%s]; when the request was made the repository's locator was [%s]", i, hashesString(got[i]), hashesString(expected[i])))
					break
				}
				seen := map[bitcoin.Hash32]bool{}
				for _, h := range got[i] {
					if seen[h] {
						fail("wire-locator-duplicate", "", fmt.Sprintf("getheaders %d carries %s twice", i, h))
					}
					seen[h] = true
				}
			}
		}
	}
	if s.RunPanic != "" {
		fail("panic", "", "node panicked: "+s.RunPanic)
	}
	s.Finish(3 * time.Second)
	r := mc.Result[string]{Violations: vs, Checks: 1, Key: fmt.Sprintf("%t|%s", stallBeforeVerify, strings.Join(hist, " ")), Outcomes: []string{outcome}}
	if len(vs) == 0 && len(hist) < 4 {
		r.Next = wireOps
	}
	return r
}

func runWireLocator(prop, tier string) int {
	start := time.Now()
	total := &mc.Stats{Exhaustive: true}
	var out []mc.Violation
	for _, stall := range []bool{false, true} {
		stall := stall
		st, vs := mc.Search(func(h []string) mc.Result[string] { return wireRun(prop, stall, h) }, 0, time.Now().Add(8*time.Minute), 41)
		seen := map[string]bool{}
		for _, v := range vs {
			if seen[v.Fingerprint] {
				continue
			}
			seen[v.Fingerprint] = true
			h := v.History.(map[string]any)["letters"].([]string)
			ok := true
			for i := 0; i < 3 && ok; i++ {
				ok = false
				for _, w := range wireRun(prop, stall, h).Violations {
					if w.Fingerprint == v.Fingerprint {
						ok = true
					}
				}
			}
			if ok {
				out = append(out, v)
			} else {
				fmt.Fprintf(os.Stderr, "note: %s did not reproduce 3/3, not reported\n", v.Fingerprint)
			}
		}
		if !st.Exhaustive {
			total.Exhaustive = false
			total.CapHit = st.CapHit
		}
		var samples []any
		for _, s := range st.Samples {
			samples = append(samples, map[string]any{"scenario": "wire-locator", "stall_before_verify": stall, "operations": strings.Join(s.([]string), " ")})
		}
		st.Samples = samples
		fmt.Fprintf(os.Stderr, "%s wire-locator/stall-before-verify-%-5t states=%d transitions=%d exhaustive=%t\n", prop, stall, st.States, st.Transitions, st.Exhaustive)
		total.Merge(st)
	}
	if len(total.Samples) > 10 {
		total.Samples = total.Samples[:10]
	}
	ev := &mc.Evidence{PropertyID: prop, Tier: tier, Level: "model_checking",
		Coverage: mc.ModelCheckingCoverage(total, map[string]any{"scenarios": []any{map[string]any{"scenario": "wire-locator", "operations": wireOps, "depth": 4,
			"what": "a ready node whose peer has stopped reading (from before the verifying reply, or from the ready state); every sequence of up to 4 operations over {header request, extend the tip, overtaking fork, mark the tip invalid}; then the peer reads again and every getheaders message on the wire is compared with the locator the repository gave when that request was made"}}}),
		Assumptions: []string{"the node runs free on an in-memory connection; violations must reproduce 3/3; state key = the operation history (no merging)"},
		Wall:        time.Since(start).Seconds()}
	return mc.Finish(ev, out)
}
