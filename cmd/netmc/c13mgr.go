package main

// C13, node manager part: several connections of one process, each peer in one of a few protocol
// states; every sequence of manager requests must be routed to verified peers only.

import (
	"fmt"
	"os"
	"strings"
	"time"

	"verif/mc"
	"verif/netsim"

	"github.com/tokenized/pkg/wire"
)

// peer scripts, simplest first: what the peer of one connection has sent so far
var mgrPeerStates = []struct {
	name     string
	script   []string
	verified bool
}{
	{"silent", nil, false},
	{"version", []string{"version"}, false},
	{"handshake", []string{"version", "verack"}, false},
	{"handshake+headers", []string{"version", "verack", "headers[block1,block2]"}, false},
	{"verified", []string{"version", "verack", "headers[bsv-split]", "headers[block1,block2]"}, true},
}

var mgrCalls = []string{"c:headers", "c:block", "c:sendtx"}

type mgrObs struct {
	hist     []string
	sessions []*netsim.Session
	verified []bool
	names    []string
	problems []mc.Violation
	routed   []string // per call: which peer states received something
}

func mgrExecute(prop string, hist []string) *mgrObs {
	o := &mgrObs{hist: hist}
	fail := func(clause, fp, detail string) {
		o.problems = append(o.problems, mc.Violation{Prop: prop, Clause: clause, Fingerprint: clause + "|" + fp,
			Detail:  detail + " [history: " + strings.Join(hist, " ") + "]",
			History: map[string]any{"scenario": "manager-routing", "letters": hist}})
	}
	var first *netsim.Session
	settle := func() bool {
		ok := true
		for _, s := range o.sessions {
			if r := s.Barrier(barrierWait); r.Stuck {
				ok = false
			}
		}
		return ok
	}
	counts := func(s *netsim.Session) map[string]int {
		s.Collect()
		m := map[string]int{}
		for _, c := range s.Sent() {
			m[c]++
		}
		return m
	}
	for _, l := range hist {
		switch {
		case strings.HasPrefix(l, "n:"):
			var st *struct {
				name     string
				script   []string
				verified bool
			}
			for i := range mgrPeerStates {
				if mgrPeerStates[i].name == l[2:] {
					st = &mgrPeerStates[i]
				}
			}
			opt := netsim.Options{Manager: true, Preload: true}
			var s *netsim.Session
			if first == nil {
				s = netsim.Start(opt)
				first = s
			} else {
				s = netsim.StartShared(opt, first)
			}
			o.sessions = append(o.sessions, s)
			o.names = append(o.names, st.name)
			o.verified = append(o.verified, st.verified)
			s.Barrier(barrierWait)
			sawVersion, sawVerack := false, false
			for _, m := range st.script {
				s.Deliver(netsim.Letters[m])
				s.Barrier(barrierWait)
				sawVersion = sawVersion || m == "version"
				sawVerack = sawVerack || m == "verack"
				if sawVersion && sawVerack {
					for t0 := time.Now(); !s.Node.HandshakeIsComplete() && time.Since(t0) < 2*time.Second; {
						time.Sleep(50 * time.Microsecond)
					}
					s.Barrier(barrierWait)
				}
			}
			if st.verified != s.Node.Verified() {
				// the single-connection part of C13 decides this; here it only makes the run unusable
				o.routed = append(o.routed, "setup-mismatch")
			}
		case strings.HasPrefix(l, "c:"):
			if !settle() {
				o.routed = append(o.routed, "unsettled")
				continue
			}
			before := make([]map[string]int, len(o.sessions))
			for i, s := range o.sessions {
				before[i] = counts(s)
			}
			m := first.Manager
			switch l {
			case "c:headers":
				m.RequestHeaders(first.Ctx)
			case "c:block":
				h := *netsim.Block1.BlockHash()
				m.RequestBlock(first.Ctx, h, func(ctx2 ctxT, header *wire.BlockHeader, n uint64, ch <-chan *wire.MsgTx) error {
					for range ch {
					}
					return nil
				}, func(ctx2 ctxT) {})
			case "c:sendtx":
				m.SendTx(first.Ctx, netsim.TestTx(0))
			}
			settle()
			var got []string
			for i, s := range o.sessions {
				after := counts(s)
				for _, c := range []string{wire.CmdGetHeaders, wire.CmdGetData, wire.CmdTx} {
					if after[c] > before[i][c] {
						got = append(got, fmt.Sprintf("%s->%s", c, o.names[i]))
						// a node sends one getheaders of its own once the handshake completes (the
						// verification request), possibly while the manager call is under way
						if !o.verified[i] && (c != wire.CmdGetHeaders || after[c] > 1) {
							fail("manager-request-to-unverified-peer", c+"|"+o.names[i], fmt.Sprintf(
								"%s made the node manager send '%s' to connection %d whose peer is only in state '%s'", l, c, i, o.names[i]))
						}
					}
				}
				if !o.verified[i] {
					if d := s.Node.VerifDump(); strings.Contains(d, "blockRequest=true") || strings.Contains(d, "blockHandler=true") {
						fail("block-handler-on-unverified-peer", o.names[i], fmt.Sprintf(
							"%s registered a block request on connection %d whose peer is only in state '%s' (%s)", l, i, o.names[i], d))
					}
				}
			}
			if len(got) == 0 {
				got = []string{"nobody"}
			}
			o.routed = append(o.routed, l[2:]+":"+strings.Join(got, "+"))
		}
	}
	for _, s := range o.sessions {
		if s.RunPanic != "" {
			fail("panic", "", "node panicked: "+s.RunPanic)
		}
	}
	return o
}

func (o *mgrObs) finish() {
	for i := len(o.sessions) - 1; i >= 0; i-- {
		o.sessions[i].Finish(3 * time.Second)
	}
}

func mgrRun(prop string, hist []string, maxNodes, maxCalls int) mc.Result[string] {
	o := mgrExecute(prop, hist)
	o.finish()
	r := mc.Result[string]{Violations: o.problems, Checks: 1, Key: strings.Join(hist, " ")}
	nodes, calls := 0, 0
	for _, l := range hist {
		if l[0] == 'n' {
			nodes++
		} else {
			calls++
		}
	}
	if calls > 0 {
		r.Outcomes = append(r.Outcomes, "manager/"+o.routed[len(o.routed)-1])
	}
	if len(o.problems) > 0 {
		return r
	}
	if calls == 0 && nodes < maxNodes {
		for _, st := range mgrPeerStates {
			r.Next = append(r.Next, "n:"+st.name)
		}
	}
	if nodes > 0 && calls < maxCalls {
		r.Next = append(r.Next, mgrCalls...)
	}
	return r
}

// runManagerPart explores the manager-routing scenarios and returns its statistics, per-scenario
// description and confirmed violations.
func runManagerPart(prop string, thorough bool) (*mc.Stats, map[string]any, []mc.Violation) {
	maxNodes, maxCalls := 3, 3
	if thorough {
		maxCalls = 4
	}
	st, vs := mc.Search(func(h []string) mc.Result[string] { return mgrRun(prop, h, maxNodes, maxCalls) }, 0, time.Now().Add(12*time.Minute), 97)
	var out []mc.Violation
	seen := map[string]bool{}
	for _, v := range vs {
		if seen[v.Fingerprint] {
			continue
		}
		seen[v.Fingerprint] = true
		h := v.History.(map[string]any)["letters"].([]string)
		ok := true
		for i := 0; i < 3 && ok; i++ {
			ok = false
			for _, w := range mgrRun(prop, h, maxNodes, maxCalls).Violations {
				if w.Fingerprint == v.Fingerprint {
					ok = true
				}
			}
		}
		if ok {
			out = append(out, v)
		} else {
			fmt.Fprintf(os.Stderr, "note: %s did not reproduce 3/3 (%s), not reported\n", v.Fingerprint, strings.Join(h, " "))
		}
	}
	var states []string
	for _, s := range mgrPeerStates {
		states = append(states, s.name)
	}
	desc := map[string]any{"scenario": "manager-routing", "peer_states": states, "calls": mgrCalls, "max_connections": maxNodes, "max_calls": maxCalls,
		"states": st.States, "transitions": st.Transitions, "exhaustive": st.Exhaustive, "states_per_depth": st.LevelStates,
		"state_key": "the history itself (no merging: the manager's rotation cursor is not observable)"}
	fmt.Fprintf(os.Stderr, "%s %-34s states=%d transitions=%d depth=%d exhaustive=%t violations=%d %.1fs\n", prop, "manager-routing", st.States, st.Transitions, st.MaxDepth, st.Exhaustive, len(out), st.Wall)
	var samples []any
	for _, s := range st.Samples {
		samples = append(samples, map[string]any{"scenario": "manager-routing", "letters": strings.Join(s.([]string), " ")})
	}
	st.Samples = samples
	return st, desc, out
}
