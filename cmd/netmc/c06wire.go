package main

// C06, wire part: what the node asks a peer for after an inventory message. Every announced
// transaction that the manager wants is requested from the announcing peer exactly once, whatever
// the size of the inventory - in particular across the 50000-item limit of one getdata message.

import (
	"crypto/sha256"
	"encoding/binary"
	"fmt"
	"time"

	"verif/mc"
	"verif/netsim"

	"github.com/tokenized/pkg/bitcoin"
	"github.com/tokenized/pkg/wire"
)

func txidOf(i int) bitcoin.Hash32 {
	var b [8]byte
	binary.LittleEndian.PutUint64(b[:], uint64(i))
	return bitcoin.Hash32(sha256.Sum256(append([]byte("c06wire"), b[:]...)))
}

// invFrame encodes an inventory message by hand (the wire library's own builder refuses more than
// 50000 entries; a peer is not bound by that).
func invFrame(ids []bitcoin.Hash32) []byte {
	p := netsim.VarInt(uint64(len(ids)))
	for i := range ids {
		var t [4]byte
		binary.LittleEndian.PutUint32(t[:], uint32(wire.InvTypeTx))
		p = append(p, t[:]...)
		p = append(p, ids[i][:]...)
	}
	return netsim.Frame(wire.CmdInv, p)
}

func bigInv(n int) ([]byte, []bitcoin.Hash32) {
	ids := make([]bitcoin.Hash32, n)
	for i := range ids {
		ids[i] = txidOf(i)
	}
	return invFrame(ids), ids
}

func parseInvList(p []byte) ([]bitcoin.Hash32, bool) {
	if len(p) < 1 {
		return nil, false
	}
	n, off := uint64(p[0]), 1
	switch p[0] {
	case 0xfd:
		if len(p) < 3 {
			return nil, false
		}
		n, off = uint64(binary.LittleEndian.Uint16(p[1:])), 3
	case 0xfe:
		if len(p) < 5 {
			return nil, false
		}
		n, off = uint64(binary.LittleEndian.Uint32(p[1:])), 5
	case 0xff:
		return nil, false
	}
	if uint64(len(p)-off) != n*36 {
		return nil, false
	}
	r := make([]bitcoin.Hash32, n)
	for i := range r {
		copy(r[i][:], p[off+i*36+4:])
	}
	return r, true
}

func runC06Wire(prop, tier string) int {
	start := time.Now()
	sizes := []int{0, 1, 2, 49999, 50000, 50001, 50010}
	if tier == "thorough" {
		sizes = append(sizes, 100000, 100001, 120000)
	}
	st := &mc.Stats{Exhaustive: true, Outcomes: map[string]int{}, Counters: map[string]int{}}
	var vs []mc.Violation
	for _, n := range sizes {
		for _, split := range []bool{false, true} { // one inventory, or the same announcements in two messages
			s := netsim.Start(netsim.Options{TxManager: true})
			s.Barrier(barrierWait)
			for _, l := range []string{"version", "verack"} {
				s.Deliver(netsim.Letters[l])
				s.Barrier(barrierWait)
			}
			for t0 := time.Now(); !s.Node.HandshakeIsComplete() && time.Since(t0) < 2*time.Second; {
				time.Sleep(50 * time.Microsecond)
			}
			s.Barrier(barrierWait)
			s.Deliver(netsim.Letters["headers[bsv-split]"])
			s.Barrier(barrierWait)
			s.Collect()
			before := len(s.Frames)
			frame, ids := bigInv(n)
			if split && n >= 2 {
				a, _ := bigInvRange(0, n/2)
				b, _ := bigInvRange(n/2, n)
				s.Deliver(a)
				s.Barrier(barrierWait)
				s.Deliver(b)
			} else {
				s.Deliver(frame)
			}
			r := s.Barrier(3 * barrierWait)
			s.Collect()
			asked := map[bitcoin.Hash32]int{}
			messages, malformed := 0, 0
			for _, f := range s.Frames[before:] {
				if f.Command != wire.CmdGetData {
					continue
				}
				messages++
				l, ok := parseInvList(f.Payload)
				if !ok {
					malformed++
					continue
				}
				for _, id := range l {
					asked[id]++
				}
			}
			st.Transitions++
			st.States++
			st.Checks++
			hist := map[string]any{"scenario": "inventory-to-getdata", "announced": n, "two_messages": split}
			fail := func(clause, fp, detail string) {
				vs = append(vs, mc.Violation{Prop: prop, Clause: clause, Fingerprint: clause + "|" + fp, Detail: detail + fmt.Sprintf(" [inventory of %d new transactions, in two messages: %t]", n, split), History: hist})
			}
			never, twice, foreign := 0, 0, 0
			want := map[bitcoin.Hash32]bool{}
			for _, id := range ids {
				want[id] = true
				switch asked[id] {
				case 0:
					never++
				case 1:
				default:
					twice++
				}
			}
			for id := range asked {
				if !want[id] {
					foreign++
				}
			}
			switch {
			case r.Closed || r.Stuck:
				fail("inventory-breaks-connection", fmt.Sprintf("closed-%t", r.Closed), "the connection did not survive a well-formed inventory message")
			case malformed > 0:
				fail("getdata-malformed", "", fmt.Sprintf("%d getdata messages cannot be parsed", malformed))
			case never > 0 || twice > 0 || foreign > 0:
				fail("announced-not-requested-exactly-once", fmt.Sprintf("never-%t-twice-%t-foreign-%t", never > 0, twice > 0, foreign > 0),
					fmt.Sprintf("%d announced transactions were never requested, %d were requested more than once, %d requested transactions were never announced (%d getdata messages)", never, twice, foreign, messages))
			}
			st.Outcomes[fmt.Sprintf("announced=%d getdata-messages=%d", n, messages)]++
			if len(st.Samples) < 6 {
				st.Samples = append(st.Samples, hist)
			}
			s.Finish(3 * time.Second)
		}
	}
	ev := &mc.Evidence{PropertyID: prop, Tier: tier, Level: "model_checking",
		Coverage: mc.ModelCheckingCoverage(st, map[string]any{"scenarios": []any{map[string]any{"scenario": "inventory-to-getdata", "inventory_sizes": sizes,
			"what": "a ready real node with a transaction manager receives an inventory of n never-seen transactions (in one message and split over two): the getdata messages it writes are parsed and every announced transaction must be requested exactly once, nothing else"}}}),
		Assumptions: []string{"the node runs free on an in-memory connection; one run per size (no search: the sizes are the enumerated space)"},
		Wall:        time.Since(start).Seconds()}
	return mc.Finish(ev, vs)
}

func bigInvRange(from, to int) ([]byte, []bitcoin.Hash32) {
	_, ids := bigInv(to)
	return invFrame(ids[from:to]), ids[from:to]
}
