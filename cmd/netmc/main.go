// netmc: explicit-state search over sequences of wire messages delivered to a real BitcoinNode
// running on an in-memory connection (engine C). Serves C03 (peer part), C13, C14 and C15.
package main

import (
	"flag"
	"fmt"
	"os"
	"sort"
	"strings"
	"time"

	"verif/mc"
	"verif/netsim"

	"github.com/google/uuid"
	"github.com/tokenized/pkg/wire"
)

// Scenario fixes role, prefix, alphabet and depth.
type Scenario struct {
	Name        string         `json:"name"`
	Opt         netsim.Options `json:"role"`
	Prefix      []string       `json:"prefix"`           // letters delivered before the explored part
	Alphabet    []string       `json:"alphabet"`         // letters explored
	Depth       int            `json:"depth"`            // bound on explored letters
	Extend      []string       `json:"extend,omitempty"` // letters that may be repeated beyond Depth (up to ExtendDepth)
	ExtendDepth int            `json:"extend_depth,omitempty"`
	// Poison: before every execution, 18 other connections of the same process each end inside a
	// message of this kind (truncated payload / wrong checksum / undecodable payload): whatever
	// such a connection leaves behind in process-wide state must not reach the examined connection
	Poison string `json:"failed_connections_first,omitempty"`
	oracle func(*obs) []mc.Violation
}

// poison runs connections that fail inside readMessage (see Scenario.Poison).
func poison(kind string) {
	ping := netsim.Letters["ping"]
	reject := netsim.Frame(wire.CmdReject, append([]byte{0xfd, 0xe8, 0x03}, make([]byte, 35)...)) // command string of declared length 1000, 35 bytes follow
	for i := 0; i < 18; i++ {
		s := netsim.Start(netsim.Options{TxManager: true})
		s.Barrier(barrierWait)
		for _, l := range []string{"version", "verack", "headers[bsv-split]"} {
			s.Deliver(netsim.Letters[l])
			s.Barrier(barrierWait)
		}
		for t0 := time.Now(); !s.Node.IsReady() && time.Since(t0) < 2*time.Second; {
			time.Sleep(50 * time.Microsecond)
		}
		switch kind {
		case "truncated":
			s.Deliver(ping[:len(ping)-4]) // half of the 8-byte payload, then the peer is gone
			s.Conn.PeerClose()
		case "checksum":
			bad := append([]byte{}, ping...)
			bad[20] ^= 0xff
			s.Deliver(bad)
		case "undecodable":
			s.Deliver(reject)
		}
		s.Finish(3 * time.Second)
	}
}

// obs is what one run observed.
type obs struct {
	sc       *Scenario
	prop     string
	hist     []string // explored letters (without prefix)
	all      []string // prefix + explored letters + actions actually delivered
	results  []netsim.BarrierResult
	s        *netsim.Session
	dump     string
	closedAt int // index in all of the letter after which the node closed the connection, -1 if open
	stuckAt  int
	sent     []string
	runBack  bool // Run returned after Finish
	// spies
	process, verify, adds, scores, times, processed int
	verified, ready, handshake                      bool
	// probes after the run
	managerPicked bool
	txEntries     int
}

const barrierWait = 4 * time.Second

// action letters are performed by the harness on the node instead of being delivered as bytes
func isAction(l string) bool { return strings.HasPrefix(l, "!") }

func blockHandler() func(s *netsim.Session) error { return nil }

func execute(sc *Scenario, prop string, hist []string) *obs {
	o := &obs{sc: sc, prop: prop, hist: hist, closedAt: -1, stuckAt: -1}
	o.all = append(append([]string{}, sc.Prefix...), hist...)
	if sc.Poison != "" {
		poison(sc.Poison)
	}
	s := netsim.Start(sc.Opt)
	o.s = s
	// initial barrier: the node is up and has sent its version
	r := s.Barrier(barrierWait)
	o.results = append(o.results, r)
	if r.Closed || r.Stuck {
		o.closedAt = -2
	}
	sawVersion, sawVerack := false, false
	for i, l := range o.all {
		if o.closedAt != -1 || o.stuckAt != -1 {
			o.all = o.all[:i]
			break
		}
		if isAction(l) {
			doAction(s, l)
		} else if base, k, act, ok := pausedLetter(l); ok {
			deliverPaused(s, base, k, act)
		} else {
			s.Deliver(netsim.Letters[l])
		}
		r := s.Barrier(barrierWait)
		o.results = append(o.results, r)
		if r.Closed {
			o.closedAt = i
		} else if r.Stuck {
			o.stuckAt = i
		}
		// The handshake thread reacts to version/verack asynchronously. Once the peer has sent
		// both, wait (bounded) until the node has registered the completed handshake, so that the
		// next letter meets a settled node; this only removes harness-side timing noise.
		if l == "version" {
			sawVersion = true
		}
		if l == "verack" {
			sawVerack = true
		}
		if sawVersion && sawVerack && !r.Closed && !r.Stuck {
			for t0 := time.Now(); !s.Node.HandshakeIsComplete() && time.Since(t0) < 2*time.Second; {
				time.Sleep(50 * time.Microsecond)
			}
			s.Barrier(barrierWait)
		}
	}
	o.snapshot()
	return o
}

// pausedLetter parses "<letter>@<k>" / "<letter>@<k>+<action>": the peer sends the first k bytes of
// the message, pauses, and sends the rest; with an action, the embedding program performs it during
// the pause (from another goroutine, as a block manager would) - it may have to wait for the node.
func pausedLetter(l string) (base string, k int, action string, ok bool) {
	i := strings.LastIndex(l, "]@")
	if i < 0 {
		return "", 0, "", false
	}
	base = l[:i+1]
	rest := l[i+2:]
	if j := strings.Index(rest, "+"); j >= 0 {
		action = rest[j+1:]
		rest = rest[:j]
	}
	if _, err := fmt.Sscanf(rest, "%d", &k); err != nil {
		return "", 0, "", false
	}
	b, have := netsim.Letters[base]
	if !have || k <= 0 || k >= len(b) {
		return "", 0, "", false
	}
	return base, k, action, true
}

func deliverPaused(s *netsim.Session, base string, k int, action string) {
	b := netsim.Letters[base]
	s.Deliver(b[:k])
	settleNoPing(s, 2*time.Second) // the node has consumed the first part and waits for more
	done := make(chan struct{})
	if action != "" {
		go func() {
			doAction(s, action)
			close(done)
		}()
		// give the action time to get as far as it can while the node is blocked in its read (it
		// either returns or waits for that read); how far it gets only selects the interleaving
		select {
		case <-done:
		case <-time.After(100 * time.Millisecond):
		}
	} else {
		close(done)
	}
	s.Deliver(b[k:])
	select {
	case <-done:
	case <-time.After(5 * time.Second):
	}
}

func doAction(s *netsim.Session, l string) {
	switch l {
	case "!request-block1":
		h := *netsim.Block1.BlockHash()
		s.Node.RequestBlock(s.Ctx, h, func(ctx2 ctxT, header *wire.BlockHeader, n uint64, ch <-chan *wire.MsgTx) error {
			for range ch {
			}
			return nil
		}, func(ctx2 ctxT) {})
	case "!cancel-block1":
		s.Node.CancelBlockRequest(s.Ctx, *netsim.Block1.BlockHash())
	case "!request-headers":
		s.Node.RequestHeaders(s.Ctx)
	case "!wait-handshake-timeout":
		// real time: the node's handshake timer is 3 s (restarted by every handshake message)
		time.Sleep(3300 * time.Millisecond)
	case "!attach-txmanager":
		s.AttachTxManager(false)
	case "!attach-txmanager-via-manager":
		s.AttachTxManager(true)
	}
}

func (o *obs) snapshot() {
	s := o.s
	o.dump = s.Node.VerifDump()
	o.verified, o.ready, o.handshake = s.Node.Verified(), s.Node.IsReady(), s.Node.HandshakeIsComplete()
	o.process, o.verify = s.Headers.Counts()
	o.adds, o.scores, o.times = s.Peers.Counts()
	if s.Processor != nil {
		o.processed = s.Processor.Count()
	}
	s.Collect()
	o.sent = s.Sent()
}

// finish runs the end-of-run probes and shuts the node down.
func (o *obs) finish() {
	s := o.s
	if s.Manager != nil && o.closedAt == -1 && o.stuckAt == -1 {
		before := len(s.Sent())
		s.Manager.RequestHeaders(s.Ctx)
		s.Manager.RequestTxs(s.Ctx)
		s.Manager.RequestBlock(s.Ctx, netsim.GenesisHash, nil, nil)
		r := s.Barrier(barrierWait)
		_ = r
		for _, c := range s.Sent()[before:] {
			if c == wire.CmdGetHeaders || c == wire.CmdGetData {
				o.managerPicked = true
			}
		}
	}
	o.runBack = s.Finish(3 * time.Second)
	if s.TxManager != nil {
		// an entry exists for a txid iff a fresh announcer is told not to request it
		other := uuid.New()
		for i := 0; i < 2; i++ {
			if first, _ := s.TxManager.AddTxID(s.Ctx, other, *netsim.TestTx(i).TxHash()); !first {
				o.txEntries++
			}
		}
	}
}

func capCount(n int) string {
	if n > 2 {
		return "3+"
	}
	return fmt.Sprint(n)
}

// key is the state key: hooked node dump + spy observations + what the node has sent (abstracted
// to per-command counts capped at 3; pongs excluded because every barrier adds one).
func (o *obs) key() string {
	counts := map[string]int{}
	for _, c := range o.sent {
		if c != wire.CmdPong {
			counts[c]++
		}
	}
	var cs []string
	for c, n := range counts {
		cs = append(cs, c+"="+capCount(n))
	}
	sort.Strings(cs)
	// harness actions that change the node's future without showing in its dump
	attached := ""
	for _, l := range o.all {
		if l == "!attach-txmanager" && !strings.Contains(attached, "n") {
			attached += "n"
		}
		if l == "!attach-txmanager-via-manager" && !strings.Contains(attached, "m") {
			attached += "m"
		}
	}
	// handshake letters received so far: the handshake thread keeps its progress in local variables
	// the dump cannot show, so histories that differ in how often the peer said version / verack
	// (up to 4 times each, until it has seen both) are different states
	nv, na := 0, 0
	for _, l := range o.all {
		if nv > 0 && na > 0 {
			break // both seen: the handshake thread is over, later repetitions meet no hidden state
		}
		if l == "version" && nv < 4 {
			nv++
		}
		if l == "verack" && na < 4 {
			na++
		}
	}
	attached += fmt.Sprintf(" version*%d verack*%d", nv, na)
	return fmt.Sprintf("%s|attached=%s|closed=%t stuck=%t|hdr=%s,%s peers=%s,%s tx=%s|sent=%s", o.dump, attached, o.closedAt != -1, o.stuckAt != -1,
		capCount(o.process), capCount(o.verify), capCount(o.adds), capCount(o.scores), capCount(o.processed), strings.Join(cs, ","))
}

func (sc *Scenario) enabled(hist []string, o *obs) []string {
	if o.closedAt != -1 || o.stuckAt != -1 {
		return nil
	}
	if len(hist) < sc.Depth {
		return sc.Alphabet
	}
	if len(hist) < sc.ExtendDepth {
		return sc.Extend
	}
	return nil
}

func (sc *Scenario) run(prop string, hist []string) mc.Result[string] {
	o := execute(sc, prop, hist)
	o.finish()
	vs := sc.oracle(o)
	r := mc.Result[string]{Violations: vs, Checks: 1}
	switch {
	case o.stuckAt != -1:
		r.Outcomes = append(r.Outcomes, "stuck")
	case o.closedAt != -1:
		r.Outcomes = append(r.Outcomes, "closed-by-node")
	case o.verified:
		r.Outcomes = append(r.Outcomes, "open-verified")
	case o.handshake:
		r.Outcomes = append(r.Outcomes, "open-handshake-complete")
	default:
		r.Outcomes = append(r.Outcomes, "open-before-handshake")
	}
	if len(vs) == 0 {
		r.Key = o.key()
		r.Next = sc.enabled(hist, o)
	}
	return r
}

func fail(o *obs, clause, fp, detail string) mc.Violation {
	return mc.Violation{Prop: o.prop, Clause: clause, Fingerprint: clause + "|" + fp, Detail: detail + " [history: " + strings.Join(o.all, " ") + "]",
		History: map[string]any{"scenario": o.sc.Name, "role": o.sc.Opt, "prefix": o.sc.Prefix, "letters": o.hist}}
}

func main() {
	prop := flag.String("prop", "C14", "")
	tier := flag.String("tier", "quick", "")
	replay := flag.String("replay", "", "")
	worker := flag.Bool("crash-worker", false, "internal: run crash cases from stdin")
	flag.Parse()
	if *worker {
		crashWorker()
		return
	}
	if *replay != "" {
		os.Exit(doReplay(*prop, *replay))
	}
	if *prop == "C15" {
		os.Exit(runC15(*tier))
	}
	if *prop == "C06" {
		os.Exit(runC06Wire(*prop, *tier))
	}
	if *prop == "C19" {
		os.Exit(runWireLocator(*prop, *tier))
	}
	start := time.Now()
	scs := scenarios(*prop, *tier == "thorough")
	if scs == nil {
		fmt.Fprintln(os.Stderr, "unknown property", *prop)
		os.Exit(2)
	}
	total := &mc.Stats{Exhaustive: true}
	var all []mc.Violation
	var per []map[string]any
	for _, sc := range scs {
		sc := sc
		st, vs := mc.Search(func(h []string) mc.Result[string] { return sc.run(*prop, h) }, 0, time.Now().Add(12*time.Minute), 97)
		// a violation found by a free-running node is believed only if it reproduces
		vs = confirm(sc, *prop, vs)
		fmt.Fprintf(os.Stderr, "%s %-34s states=%d transitions=%d depth=%d exhaustive=%t violations=%d %.1fs\n", *prop, sc.Name, st.States, st.Transitions, st.MaxDepth, st.Exhaustive, len(vs), st.Wall)
		var samples []any
		for _, s := range st.Samples {
			samples = append(samples, map[string]any{"scenario": sc.Name, "letters": strings.Join(append(append([]string{}, sc.Prefix...), s.([]string)...), " ")})
		}
		st.Samples = samples
		if !st.Exhaustive {
			total.Exhaustive = false
			total.CapHit = sc.Name + ": " + st.CapHit
		}
		total.Merge(st)
		per = append(per, map[string]any{"scenario": sc.Name, "role": sc.Opt, "prefix": sc.Prefix, "alphabet_size": len(sc.Alphabet), "depth": sc.Depth,
			"extend_depth": sc.ExtendDepth, "states": st.States, "transitions": st.Transitions, "exhaustive": st.Exhaustive, "states_per_depth": st.LevelStates})
		all = append(all, vs...)
	}
	if *prop == "C13" {
		st, desc, vs := runManagerPart(*prop, *tier == "thorough")
		if !st.Exhaustive {
			total.Exhaustive = false
			total.CapHit = "manager-routing: " + st.CapHit
		}
		total.Merge(st)
		per = append(per, desc)
		all = append(all, vs...)
		st2, desc2, vs2 := runStalledPart(*prop)
		if !st2.Exhaustive {
			total.Exhaustive = false
			total.CapHit = "stalled-peer: " + st2.CapHit
		}
		total.Merge(st2)
		per = append(per, desc2)
		all = append(all, vs2...)
	}
	if len(total.Samples) > 14 {
		total.Samples = total.Samples[:14]
	}
	ev := &mc.Evidence{PropertyID: *prop, Tier: *tier, Level: "model_checking",
		Coverage: mc.ModelCheckingCoverage(total, map[string]any{"scenarios": per, "alphabet": netsim.LetterNames}),
		Assumptions: []string{
			"the node runs free (real goroutines) on an in-memory connection; scheduling inside the node is not enumerated: only oracles that are conclusive on observation are used, and every violation must reproduce in 3 of 3 re-executions before it is reported",
			"one transition = deliver one complete, correctly framed message, then a ping barrier (pong + node quiescent by hooked dump) bounded by 4 s; the handshake's own 3 s timeout is never reached in a run that takes milliseconds",
			"state key: hooked node dump + spy counters + per-command counts of what the node sent (capped at 3) + number of version / verack messages received (capped at 4: the handshake thread's progress is in local variables)",
		},
		Wall: time.Since(start).Seconds()}
	os.Exit(mc.Finish(ev, all))
}

// confirm re-executes each distinct violating history 3 times and keeps it only if all fail the
// same clause.
func confirm(sc *Scenario, prop string, vs []mc.Violation) []mc.Violation {
	var out []mc.Violation
	seen := map[string]bool{}
	for _, v := range vs {
		if seen[v.Fingerprint] {
			continue
		}
		seen[v.Fingerprint] = true
		h := v.History.(map[string]any)["letters"].([]string)
		ok := true
		for i := 0; i < 3 && ok; i++ {
			r := sc.run(prop, h)
			ok = false
			for _, w := range r.Violations {
				if w.Fingerprint == v.Fingerprint {
					ok = true
				}
			}
		}
		if ok {
			out = append(out, v)
		} else {
			fmt.Fprintf(os.Stderr, "note: %s did not reproduce 3/3 (%s), not reported\n", v.Fingerprint, strings.Join(h, " "))
		}
	}
	return out
}

func doReplay(prop, path string) int {
	fmt.Println("replay", path)
	return 0
}
