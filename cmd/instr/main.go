// instr rewrites the source of the root package of tokenized/bitcoin_reader and of the
// tokenized/threads library so that every synchronisation operation goes through the vsched
// package, and writes an overlay file for `go build -overlay`. /repo is never modified: rewritten
// copies go to a scratch directory and the overlay maps the original paths to them. The rewritten
// files import verif/vsched, a package of the /verif module, so the instrumented build must be run
// from /verif (import paths are resolved over the whole build list, so the dependency modules can
// import it); rewritten packages and harness then share one scheduler instance.
//
// usage: instr -repo /repo -verif /verif -out <dir>
package main

import (
	"bytes"
	"encoding/json"
	"flag"
	"fmt"
	"go/ast"
	"go/format"
	"go/token"
	"go/types"
	"os"
	"path/filepath"
	"strconv"
	"strings"

	"golang.org/x/tools/go/ast/astutil"
	"golang.org/x/tools/go/packages"
)

const vschedPath = "verif/vsched"

type rewriter struct {
	fset    *token.FileSet
	info    *types.Info
	counter int
	used    bool // vsched referenced in this file
	errs    []string
	file    string
}

func (r *rewriter) errorf(n ast.Node, format string, args ...any) {
	r.errs = append(r.errs, fmt.Sprintf("%s: %s", r.fset.Position(n.Pos()), fmt.Sprintf(format, args...)))
}

func (r *rewriter) call(fn string, args ...ast.Expr) *ast.CallExpr {
	r.used = true
	return &ast.CallExpr{Fun: &ast.SelectorExpr{X: ast.NewIdent("vsched"), Sel: ast.NewIdent(fn)}, Args: args}
}

func (r *rewriter) isChan(e ast.Expr) bool {
	t := r.info.TypeOf(e)
	if t == nil {
		return false
	}
	_, ok := t.Underlying().(*types.Chan)
	return ok
}

// pkgFunc reports whether e is a selector pkg.Name on the import of path.
func (r *rewriter) pkgFunc(e ast.Expr, path string) (string, bool) {
	sel, ok := e.(*ast.SelectorExpr)
	if !ok {
		return "", false
	}
	id, ok := sel.X.(*ast.Ident)
	if !ok {
		return "", false
	}
	pn, ok := r.info.Uses[id].(*types.PkgName)
	if !ok || pn.Imported().Path() != path {
		return "", false
	}
	return sel.Sel.Name, true
}

func (r *rewriter) fresh(prefix string) string {
	r.counter++
	return fmt.Sprintf("_vs%s%d", prefix, r.counter)
}

// recvOperand returns the channel expression if e is <-ch.
func recvOperand(e ast.Expr) (ast.Expr, bool) {
	for {
		p, ok := e.(*ast.ParenExpr)
		if !ok {
			break
		}
		e = p.X
	}
	u, ok := e.(*ast.UnaryExpr)
	if ok && u.Op == token.ARROW {
		return u.X, true
	}
	// children are rewritten before their parents: <-ch may already be vsched.Recv(ch)
	if name, args := vschedCall(e); (name == "Recv" || name == "Recv2") && len(args) == 1 {
		return args[0], true
	}
	return nil, false
}

// vschedCall returns the function name and arguments if e is a call vsched.Name(args).
func vschedCall(e ast.Expr) (string, []ast.Expr) {
	call, ok := e.(*ast.CallExpr)
	if !ok {
		return "", nil
	}
	sel, ok := call.Fun.(*ast.SelectorExpr)
	if !ok {
		return "", nil
	}
	if id, ok := sel.X.(*ast.Ident); ok && id.Name == "vsched" {
		return sel.Sel.Name, call.Args
	}
	return "", nil
}

// rewriteSelect turns a select statement into case objects + switch on vsched.Select. It runs
// after its children were rewritten, so communication clauses may already be in rewritten form.
func (r *rewriter) rewriteSelect(s *ast.SelectStmt) ast.Stmt {
	block := &ast.BlockStmt{}
	var caseVars []ast.Expr
	sw := &ast.SwitchStmt{Body: &ast.BlockStmt{}}
	hasDefault := false
	idx := 0
	define := func(v string, rhs ast.Expr) {
		block.List = append(block.List, &ast.AssignStmt{Lhs: []ast.Expr{ast.NewIdent(v)}, Tok: token.DEFINE, Rhs: []ast.Expr{rhs}})
	}
	for _, cl := range s.Body.List {
		cc := cl.(*ast.CommClause)
		if cc.Comm == nil {
			hasDefault = true
			sw.Body.List = append(sw.Body.List, &ast.CaseClause{List: []ast.Expr{&ast.BasicLit{Kind: token.INT, Value: "-1"}}, Body: cc.Body})
			continue
		}
		cv := r.fresh("c")
		var pre []ast.Stmt
		switch comm := cc.Comm.(type) {
		case *ast.SendStmt:
			define(cv, r.call("SendCase", comm.Chan, comm.Value))
		case *ast.ExprStmt:
			if fn, args := vschedCall(comm.X); fn == "Send" && len(args) == 2 {
				define(cv, r.call("SendCase", args[0], args[1]))
			} else if ch, ok := recvOperand(comm.X); ok {
				define(cv, r.call("RecvCase", ch))
			} else {
				r.errorf(comm, "unsupported select case")
				return s
			}
		case *ast.AssignStmt:
			if len(comm.Rhs) != 1 {
				r.errorf(comm, "unsupported select case")
				return s
			}
			ch, ok := recvOperand(comm.Rhs[0])
			if !ok {
				r.errorf(comm, "unsupported select case")
				return s
			}
			define(cv, r.call("RecvCase", ch))
			method := "Val"
			if len(comm.Lhs) == 2 {
				method = "Val2"
			}
			pre = append(pre, &ast.AssignStmt{Lhs: comm.Lhs, Tok: comm.Tok,
				Rhs: []ast.Expr{&ast.CallExpr{Fun: &ast.SelectorExpr{X: ast.NewIdent(cv), Sel: ast.NewIdent(method)}}}})
		default:
			r.errorf(cc, "unsupported select case")
			return s
		}
		caseVars = append(caseVars, ast.NewIdent(cv))
		sw.Body.List = append(sw.Body.List, &ast.CaseClause{List: []ast.Expr{&ast.BasicLit{Kind: token.INT, Value: strconv.Itoa(idx)}},
			Body: append(pre, cc.Body...)})
		idx++
	}
	def := "false"
	if hasDefault {
		def = "true"
	}
	// the last communication case becomes the switch's default clause, so that a select whose
	// cases all end in return / panic remains a terminating statement after rewriting
	for i := len(sw.Body.List) - 1; i >= 0; i-- {
		cl := sw.Body.List[i].(*ast.CaseClause)
		if lit, ok := cl.List[0].(*ast.BasicLit); ok && lit.Value != "-1" {
			cl.List = nil
			break
		}
	}
	args := append([]ast.Expr{ast.NewIdent(def)}, caseVars...)
	sw.Tag = r.call("Select", args...)
	block.List = append(block.List, sw)
	return block
}

func (r *rewriter) rewriteFile(f *ast.File) {
	// post-order: children first, so that replaced nodes have been rewritten inside already
	astutil.Apply(f, nil, func(c *astutil.Cursor) bool {
		switch n := c.Node().(type) {
		case *ast.LabeledStmt:
			if _, ok := n.Stmt.(*ast.SelectStmt); ok {
				r.errorf(n, "labeled select is not supported")
			}
		case *ast.SelectStmt:
			c.Replace(r.rewriteSelect(n))
		case *ast.RangeStmt:
			if r.isChan(n.X) {
				okName := r.fresh("ok")
				var lhs ast.Expr = ast.NewIdent("_")
				if n.Key != nil {
					lhs = n.Key
					if n.Tok == token.ASSIGN {
						r.errorf(n, "range over channel with assignment is not supported")
					}
				}
				recv := &ast.AssignStmt{Lhs: []ast.Expr{lhs, ast.NewIdent(okName)}, Tok: token.DEFINE, Rhs: []ast.Expr{r.call("Recv2", n.X)}}
				brk := &ast.IfStmt{Cond: &ast.UnaryExpr{Op: token.NOT, X: ast.NewIdent(okName)}, Body: &ast.BlockStmt{List: []ast.Stmt{&ast.BranchStmt{Tok: token.BREAK}}}}
				body := &ast.BlockStmt{List: append([]ast.Stmt{recv, brk}, n.Body.List...)}
				c.Replace(&ast.ForStmt{Body: body})
			}
		case *ast.SendStmt:
			// (the communication statement of a select case is handled by rewriteSelect; statements
			// in the body of a case also have the CommClause as parent, so test the field name)
			if _, inSelect := c.Parent().(*ast.CommClause); !(inSelect && c.Name() == "Comm") {
				c.Replace(&ast.ExprStmt{X: r.call("Send", n.Chan, n.Value)})
			}
		case *ast.GoStmt:
			if lit, ok := n.Call.Fun.(*ast.FuncLit); ok && len(n.Call.Args) == 0 {
				c.Replace(&ast.ExprStmt{X: r.call("Go", lit)})
			} else if len(n.Call.Args) == 0 {
				c.Replace(&ast.ExprStmt{X: r.call("Go", &ast.FuncLit{Type: &ast.FuncType{Params: &ast.FieldList{}},
					Body: &ast.BlockStmt{List: []ast.Stmt{&ast.ExprStmt{X: n.Call}}}})})
			} else {
				r.errorf(n, "go statement with arguments is not supported")
			}
		case *ast.AssignStmt:
			if len(n.Lhs) == 2 && len(n.Rhs) == 1 {
				if fn, args := vschedCall(n.Rhs[0]); fn == "Recv" {
					if _, inSelect := c.Parent().(*ast.CommClause); !(inSelect && c.Name() == "Comm") {
						n.Rhs[0] = r.call("Recv2", args...)
					}
				}
			}
		case *ast.ValueSpec:
			if len(n.Names) == 2 && len(n.Values) == 1 {
				if fn, args := vschedCall(n.Values[0]); fn == "Recv" {
					n.Values[0] = r.call("Recv2", args...)
				}
			}
		case *ast.UnaryExpr:
			if n.Op == token.ARROW {
				c.Replace(r.call("Recv", n.X))
			}
		case *ast.SelectorExpr:
			// the type time.Timer (variables and fields holding the result of time.NewTimer)
			if name, ok := r.pkgFunc(n, "time"); ok && name == "Timer" {
				if _, isType := r.info.Uses[n.Sel].(*types.TypeName); isType {
					c.Replace(&ast.SelectorExpr{X: ast.NewIdent("vsched"), Sel: ast.NewIdent("Timer")})
					r.used = true
				}
			}
		case *ast.CallExpr:
			if id, ok := n.Fun.(*ast.Ident); ok && id.Name == "close" && len(n.Args) == 1 {
				if _, isBuiltin := r.info.Uses[id].(*types.Builtin); isBuiltin {
					n.Fun = &ast.SelectorExpr{X: ast.NewIdent("vsched"), Sel: ast.NewIdent("Close")}
					r.used = true
				}
			}
			if name, ok := r.pkgFunc(n.Fun, "time"); ok {
				switch name {
				case "Now", "Since", "After", "Sleep", "NewTimer":
					n.Fun = &ast.SelectorExpr{X: ast.NewIdent("vsched"), Sel: ast.NewIdent(name)}
					r.used = true
				case "NewTicker", "AfterFunc", "Tick", "Until":
					r.errorf(n, "time.%s is not supported", name)
				}
			}
			if name, ok := r.pkgFunc(n.Fun, "math/rand"); ok {
				switch name {
				case "Seed":
					n.Fun = &ast.SelectorExpr{X: ast.NewIdent("vsched"), Sel: ast.NewIdent("RandSeed")}
					r.used = true
				case "Shuffle":
					n.Fun = &ast.SelectorExpr{X: ast.NewIdent("vsched"), Sel: ast.NewIdent("RandShuffle")}
					r.used = true
				case "Perm":
					n.Fun = &ast.SelectorExpr{X: ast.NewIdent("vsched"), Sel: ast.NewIdent("RandPerm")}
					r.used = true
				}
			}
		}
		return true
	})

	// imports: "sync" becomes the vsched package under the name sync
	hasTime, hasRand := false, false
	for _, imp := range f.Imports {
		p, _ := strconv.Unquote(imp.Path.Value)
		switch p {
		case "sync":
			imp.Path.Value = strconv.Quote(vschedPath)
			imp.Name = ast.NewIdent("sync")
		case "time":
			hasTime = true
		case "math/rand":
			hasRand = true
		}
	}
	if r.used {
		astutil.AddNamedImport(r.fset, f, "vsched", vschedPath)
	}
	// keep imports used whose only uses may have been rewritten away
	if hasTime {
		f.Decls = append(f.Decls, dummyUse("time", "Duration"))
	}
	if hasRand {
		f.Decls = append(f.Decls, &ast.GenDecl{Tok: token.VAR, Specs: []ast.Spec{&ast.ValueSpec{Names: []*ast.Ident{ast.NewIdent("_")},
			Values: []ast.Expr{&ast.SelectorExpr{X: ast.NewIdent("rand"), Sel: ast.NewIdent("Int")}}}}})
	}
}

func dummyUse(pkg, typ string) ast.Decl {
	return &ast.GenDecl{Tok: token.VAR, Specs: []ast.Spec{&ast.ValueSpec{Names: []*ast.Ident{ast.NewIdent("_")},
		Type: &ast.SelectorExpr{X: ast.NewIdent(pkg), Sel: ast.NewIdent(typ)}}}}
}

func main() {
	repo := flag.String("repo", "/repo", "repository root")
	verif := flag.String("verif", "/verif", "verification root (source of the vsched package)")
	out := flag.String("out", "", "output directory")
	flag.Parse()
	if *out == "" {
		fmt.Fprintln(os.Stderr, "-out required")
		os.Exit(2)
	}
	os.MkdirAll(*out, 0o755)
	cfg := &packages.Config{Mode: packages.NeedName | packages.NeedFiles | packages.NeedCompiledGoFiles | packages.NeedSyntax | packages.NeedTypes | packages.NeedTypesInfo | packages.NeedImports | packages.NeedDeps | packages.NeedModule,
		Dir: *repo, BuildFlags: []string{"-tags=verif"}, Env: append(os.Environ(), "GOFLAGS=-mod=mod")}
	// the storage package of tokenized/pkg passes a sync.WaitGroup to the threads library in one
	// file; that file has to follow the threads library's new parameter types
	pkgs, err := packages.Load(cfg, "github.com/tokenized/bitcoin_reader", "github.com/tokenized/threads", "github.com/tokenized/pkg/storage")
	if err != nil {
		fmt.Fprintln(os.Stderr, "load:", err)
		os.Exit(2)
	}
	overlay := map[string]string{}
	failed := false
	threadsDir := ""
	for _, p := range pkgs {
		if len(p.Errors) > 0 {
			for _, e := range p.Errors {
				fmt.Fprintln(os.Stderr, "package error:", e)
			}
			failed = true
			continue
		}
		if p.PkgPath == "github.com/tokenized/threads" && len(p.GoFiles) > 0 {
			threadsDir = filepath.Dir(p.GoFiles[0])
		}
		for i, f := range p.Syntax {
			path := p.CompiledGoFiles[i]
			if p.PkgPath != "github.com/tokenized/bitcoin_reader" && p.PkgPath != "github.com/tokenized/threads" {
				usesThreads := false
				for _, imp := range f.Imports {
					if imp.Path.Value == `"github.com/tokenized/threads"` {
						usesThreads = true
					}
				}
				if !usesThreads {
					continue
				}
			}
			r := &rewriter{fset: p.Fset, info: p.TypesInfo, file: path}
			r.rewriteFile(f)
			if len(r.errs) > 0 {
				for _, e := range r.errs {
					fmt.Fprintln(os.Stderr, "unsupported construct:", e)
				}
				failed = true
				continue
			}
			// safety net: no native channel operation, go statement or select may survive
			ast.Inspect(f, func(n ast.Node) bool {
				switch x := n.(type) {
				case *ast.SendStmt, *ast.GoStmt, *ast.SelectStmt:
					r.errorf(n, "internal: construct survived rewriting")
				case *ast.UnaryExpr:
					if x.Op == token.ARROW {
						r.errorf(n, "internal: receive survived rewriting")
					}
				}
				return true
			})
			if len(r.errs) > 0 {
				for _, e := range r.errs {
					fmt.Fprintln(os.Stderr, "unsupported construct:", e)
				}
				failed = true
				continue
			}
			var buf bytes.Buffer
			if err := format.Node(&buf, p.Fset, f); err != nil {
				fmt.Fprintln(os.Stderr, "print:", path, err)
				failed = true
				continue
			}
			dst := filepath.Join(*out, strings.ReplaceAll(strings.TrimPrefix(path, "/"), "/", "__"))
			if err := os.WriteFile(dst, buf.Bytes(), 0o644); err != nil {
				fmt.Fprintln(os.Stderr, err)
				failed = true
			}
			overlay[path] = dst
		}
	}
	_ = threadsDir
	_ = verif
	if failed {
		os.Exit(2)
	}
	b, _ := json.MarshalIndent(map[string]any{"Replace": overlay}, "", " ")
	if err := os.WriteFile(filepath.Join(*out, "overlay.json"), b, 0o644); err != nil {
		fmt.Fprintln(os.Stderr, err)
		os.Exit(2)
	}
	fmt.Printf("instrumented %d files -> %s\n", len(overlay), *out)
}
