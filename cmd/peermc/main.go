// peermc: explicit-state model checking of the peer address book (C20, sequential part and file
// damage). BFS over operation histories on the real StoragePeerRepository against a map model;
// every prefix of every saved file reached is loaded; a structured set of arbitrary file contents
// is loaded in worker subprocesses under an address-space limit.
package main

import (
	"context"
	"encoding/binary"
	"encoding/hex"
	"flag"
	"fmt"
	"os"
	"os/exec"
	"sort"
	"strings"
	"time"

	"verif/mc"
	"verif/vstore"

	bitcoin_reader "github.com/tokenized/bitcoin_reader"
	"github.com/tokenized/logger"
)

type Op struct {
	K string `json:"k"` // add, score, time, save, load, clear
	A int    `json:"a"` // address index
	D int32  `json:"d,omitempty"`
}

func (o Op) String() string {
	switch o.K {
	case "add", "time":
		return fmt.Sprintf("%s(%d)", o.K, o.A)
	case "score":
		return fmt.Sprintf("score(%d,%+d)", o.A, o.D)
	}
	return o.K
}

var addresses = []string{
	"a",
	"",
	strings.Repeat("long-address-", 24) + ":8333",
	"peér-中文:1",
	"[2001:db8::1]:8333",
}

type mpeer struct {
	addr  string
	score int32
	last  uint32
}

type model struct {
	order []string
	m     map[string]*mpeer
	saved []mpeer // nil: no file
	has   bool
}

func (m *model) snapshot() []mpeer {
	r := make([]mpeer, 0, len(m.order))
	for _, a := range m.order {
		r = append(r, *m.m[a])
	}
	return r
}

type world struct {
	ctx   context.Context
	store *vstore.Store
	repo  *bitcoin_reader.StoragePeerRepository
	m     *model
}

func newWorld() *world {
	w := &world{ctx: logger.ContextWithNoLogger(context.Background()), store: vstore.New()}
	w.repo = bitcoin_reader.NewPeerRepository(w.store, "")
	w.m = &model{m: map[string]*mpeer{}}
	return w
}

func safe(f func()) (p string) {
	defer func() {
		if r := recover(); r != nil {
			p = fmt.Sprint(r)
		}
	}()
	f()
	return ""
}

type checker struct {
	hist []Op
	vs   []mc.Violation
	n    int
	cnt  map[string]int
}

func (c *checker) fail(clause, fp, detail string) {
	c.vs = append(c.vs, mc.Violation{Prop: "C20", Clause: clause, Fingerprint: clause + "|" + fp, Detail: detail, History: c.hist})
}

// listAll returns the implementation's peers via Get(min, unbounded) sorted by address.
func (w *world) listAll() []mpeer {
	l, _ := w.repo.Get(w.ctx, -1<<31, -1)
	r := make([]mpeer, len(l))
	for i, p := range l {
		r[i] = mpeer{p.Address, p.Score, p.LastTime}
	}
	sort.Slice(r, func(i, j int) bool { return r[i].addr < r[j].addr })
	return r
}

func (w *world) apply(c *checker, op Op) {
	m := w.m
	var addr string
	if op.K == "add" || op.K == "score" || op.K == "time" {
		addr = addresses[op.A]
	}
	switch op.K {
	case "add":
		var got bool
		var err error
		if p := safe(func() { got, err = w.repo.Add(w.ctx, addr) }); p != "" {
			c.fail("panic", "add", p)
			return
		}
		_, exists := m.m[addr]
		c.n++
		if err != nil || got != !exists {
			c.fail("add-result", fmt.Sprintf("exists-%t", exists), fmt.Sprintf("Add(%q) = (%t,%v), address already held: %t", addr, got, err, exists))
			return
		}
		if !exists {
			m.m[addr] = &mpeer{addr: addr}
			m.order = append(m.order, addr)
		}
	case "score", "time":
		t0 := uint32(time.Now().Unix())
		var got bool
		if p := safe(func() {
			if op.K == "score" {
				got = w.repo.UpdateScore(w.ctx, addr, op.D)
			} else {
				got = w.repo.UpdateTime(w.ctx, addr)
			}
		}); p != "" {
			c.fail("panic", op.K, p)
			return
		}
		t1 := uint32(time.Now().Unix())
		mp, exists := m.m[addr]
		c.n++
		if got != exists {
			c.fail("update-result", op.K, fmt.Sprintf("%s(%q) = %t, address held: %t", op.K, addr, got, exists))
			return
		}
		if exists {
			if op.K == "score" {
				mp.score += op.D
			}
			// read back the time the implementation stamped
			for _, p := range w.listAll() {
				if p.addr == addr {
					if p.last < t0 || p.last > t1 {
						c.fail("last-seen", op.K, fmt.Sprintf("last-seen of %q is %d, outside [%d,%d]", addr, p.last, t0, t1))
						return
					}
					mp.last = p.last
				}
			}
		}
	case "save":
		var err error
		if p := safe(func() { err = w.repo.Save(w.ctx) }); p != "" || err != nil {
			c.fail("save-failed", "", fmt.Sprintf("Save: %v %s", err, p))
			return
		}
		m.saved = m.snapshot()
		m.has = true
	case "load":
		var err error
		if p := safe(func() { err = w.repo.Load(w.ctx) }); p != "" || err != nil {
			c.fail("load-failed", "", fmt.Sprintf("Load of a file written by Save: %v %s", err, p))
			return
		}
		m.m = map[string]*mpeer{}
		m.order = nil
		for _, s := range m.saved {
			s := s
			m.m[s.addr] = &s
			m.order = append(m.order, s.addr)
		}
	case "clear":
		if p := safe(func() { w.repo.Clear(w.ctx) }); p != "" {
			c.fail("panic", "clear", p)
			return
		}
		m.m = map[string]*mpeer{}
		m.order = nil
		m.saved = nil
		m.has = false
	}
	// reads between events: queries are also made after every operation of the history, not only in
	// the state under examination (a read must not influence later answers)
	safe(func() {
		w.repo.Get(w.ctx, 0, 5)
		w.repo.Get(w.ctx, -1<<31, -1)
		w.repo.Count()
	})
}

var scoreBounds = []int32{-5, -1, 0, 1, 4, 5}

// probes: everything readable is compared with the model.
func (w *world) probes(c *checker) {
	m := w.m
	var count int
	if p := safe(func() { count = w.repo.Count() }); p != "" {
		c.fail("panic", "count", p)
		return
	}
	c.n++
	if count != len(m.order) {
		c.fail("count", "", fmt.Sprintf("Count() = %d, model holds %d distinct addresses", count, len(m.order)))
		return
	}
	all := w.listAll()
	want := m.snapshot()
	sort.Slice(want, func(i, j int) bool { return want[i].addr < want[j].addr })
	c.n++
	if len(all) != len(want) {
		c.fail("list-size", "", fmt.Sprintf("Get(min,unbounded) returned %d peers, model %d", len(all), len(want)))
		return
	}
	for i := range all {
		if all[i] != want[i] {
			what := "score"
			if all[i].addr != want[i].addr {
				what = "address"
			} else if all[i].score == want[i].score {
				what = "last-seen"
			}
			c.fail("peer-state", what, fmt.Sprintf("peer %d: implementation %+v, model %+v", i, all[i], want[i]))
			return
		}
		if i > 0 && all[i].addr == all[i-1].addr {
			c.fail("duplicate-address", "", "address held twice: "+all[i].addr)
			return
		}
	}
	// all range queries are issued first and their results inspected afterwards: a caller keeps a
	// result while it (or somebody else) issues further queries
	type held struct {
		min, max int32
		l        bitcoin_reader.PeerList
	}
	var results []held
	for _, min := range scoreBounds {
		for _, max := range scoreBounds {
			l, err := w.repo.Get(w.ctx, min, max)
			c.n++
			if err != nil {
				c.fail("get-error", "", err.Error())
				return
			}
			results = append(results, held{min, max, l})
		}
	}
	for _, r := range results {
		{
			min, max, l := r.min, r.max, r.l
			got := map[string]int{}
			for _, p := range l {
				got[p.Address]++
			}
			wantN := 0
			for _, a := range m.order {
				s := m.m[a].score
				in := s >= min && (max == -1 || s <= max)
				if in {
					wantN++
				}
				if (got[a] == 1) != in || got[a] > 1 {
					c.fail("get-range", fmt.Sprintf("max-unbounded-%t", max == -1), fmt.Sprintf("Get(%d,%d): address %q (score %d) returned %d times, expected in range: %t", min, max, a, s, got[a], in))
					return
				}
			}
			if len(l) != wantN {
				c.fail("get-range-size", "", fmt.Sprintf("Get(%d,%d) returned %d peers, expected %d", min, max, len(l), wantN))
				return
			}
		}
	}
}

// record boundaries of a saved file: offsets at which the k-th record ends.
func recordEnds(saved []mpeer) []int {
	off := 5
	ends := make([]int, len(saved))
	for i, p := range saved {
		off += 4 + len(p.addr) + 4 + 4
		ends[i] = off
	}
	return ends
}

// truncations loads every prefix of the saved file.
func (w *world) truncations(c *checker) {
	data, ok := w.store.Get("peers")
	if !ok {
		return
	}
	ends := recordEnds(w.m.saved)
	for l := 0; l <= len(data); l++ {
		st := vstore.New()
		st.Write(w.ctx, "peers", data[:l], nil)
		repo := bitcoin_reader.NewPeerRepository(st, "")
		var err error
		p := safe(func() { err = repo.Load(w.ctx) })
		c.n++
		c.cnt["file_prefixes_loaded"]++
		if p != "" {
			c.fail("truncated-load-panic", normalize(p), fmt.Sprintf("Load of the first %d of %d bytes panicked: %s", l, len(data), p))
			return
		}
		full := 0
		for _, e := range ends {
			if e <= l {
				full++
			}
		}
		list, _ := repo.Get(w.ctx, -1<<31, -1)
		if l < 5 {
			full = 0
		}
		_ = err
		if len(list) != full || repo.Count() != full {
			c.fail("truncated-load-lost-peers", "", fmt.Sprintf("file cut at %d of %d bytes: %d peers fully written, %d loaded", l, len(data), full, len(list)))
			return
		}
		got := map[string]mpeer{}
		for _, p := range list {
			got[p.Address] = mpeer{p.Address, p.Score, p.LastTime}
		}
		for _, s := range w.m.saved[:full] {
			if got[s.addr] != s {
				c.fail("truncated-load-wrong-peer", "", fmt.Sprintf("file cut at %d: peer %q loaded as %+v, written as %+v", l, s.addr, got[s.addr], s))
				return
			}
		}
	}
}

func normalize(s string) string {
	r := []rune{}
	for _, ch := range s {
		if ch >= '0' && ch <= '9' {
			if len(r) > 0 && r[len(r)-1] == 'N' {
				continue
			}
			ch = 'N'
		}
		if ch == ' ' {
			ch = '_'
		}
		r = append(r, ch)
	}
	if len(r) > 100 {
		r = r[:100]
	}
	return string(r)
}

type bounds struct {
	addrs  int
	depth  int
	deltas []int32
}

func (b bounds) enabled(hist []Op) []Op {
	if len(hist) >= b.depth {
		return nil
	}
	var ops []Op
	for a := 0; a < b.addrs; a++ {
		ops = append(ops, Op{K: "add", A: a})
	}
	for a := 0; a < b.addrs; a++ {
		for _, d := range b.deltas {
			ops = append(ops, Op{K: "score", A: a, D: d})
		}
		ops = append(ops, Op{K: "time", A: a})
	}
	ops = append(ops, Op{K: "save"}, Op{K: "load"}, Op{K: "clear"})
	return ops
}

func (b bounds) run(hist []Op) mc.Result[Op] {
	w := newWorld()
	c := &checker{hist: hist, cnt: map[string]int{}}
	for i, op := range hist {
		w.apply(c, op)
		if len(c.vs) > 0 {
			if i < len(hist)-1 {
				// cannot happen: prefixes were checked before being expanded
				c.vs[0].Detail = "in prefix: " + c.vs[0].Detail
			}
			break
		}
	}
	if len(c.vs) == 0 {
		w.probes(c)
	}
	if len(c.vs) == 0 && len(hist) > 0 && hist[len(hist)-1].K == "save" {
		w.truncations(c)
	}
	r := mc.Result[Op]{Violations: c.vs, Checks: c.n, Counters: c.cnt}
	if len(hist) > 0 {
		r.Outcomes = []string{"op:" + hist[len(hist)-1].K}
	}
	if len(c.vs) == 0 {
		// key: model state (last-seen values abstracted to set/unset: behaviour never depends on them)
		sb := &strings.Builder{}
		for _, a := range w.m.order {
			p := w.m.m[a]
			fmt.Fprintf(sb, "%q:%d:%t,", a, p.score, p.last != 0)
		}
		sb.WriteString("|")
		if w.m.has {
			for _, p := range w.m.saved {
				fmt.Fprintf(sb, "%q:%d:%t,", p.addr, p.score, p.last != 0)
			}
		} else {
			sb.WriteString("nofile")
		}
		r.Key = sb.String()
		r.Next = b.enabled(hist)
	}
	return r
}

// ---------------------------------------------------------------------------------------------
// arbitrary file contents, loaded in worker subprocesses

type blob struct {
	name string
	data []byte
	// expected peers when the load completes: -1 = any
	minPeers int
}

func rec(addr string, score int32, last uint32) []byte {
	b := make([]byte, 0, 12+len(addr))
	b = binary.LittleEndian.AppendUint32(b, uint32(len(addr)))
	b = append(b, addr...)
	b = binary.LittleEndian.AppendUint32(b, uint32(score))
	b = binary.LittleEndian.AppendUint32(b, last)
	return b
}

func file(version uint8, count int32, recs ...[]byte) []byte {
	b := []byte{version}
	b = binary.LittleEndian.AppendUint32(b, uint32(count))
	for _, r := range recs {
		b = append(b, r...)
	}
	return b
}

func rawLen(n int32, tail ...byte) []byte {
	b := binary.LittleEndian.AppendUint32(nil, uint32(n))
	return append(b, tail...)
}

func blobs() []blob {
	r1, r2 := rec("a", 3, 100), rec("b", -2, 200)
	return []blob{
		{"empty", nil, 0},
		{"version-only", []byte{0}, 0},
		{"bad-version", file(1, 1, r1), 0},
		{"count-minus-1", file(0, -1, r1, r2), 0},
		{"count-min-int32", file(0, -1<<31, r1), 0},
		{"count-zero-with-records", file(0, 0, r1, r2), 0},
		{"count-too-large", file(0, 1000, r1, r2), 2},
		{"count-max-int32", file(0, 1<<31-1, r1, r2), 2},
		{"address-length-minus-1", file(0, 2, r1, rawLen(-1, 1, 2, 3)), 1},
		{"address-length-min-int32", file(0, 2, r1, rawLen(-1<<31)), 1},
		{"address-length-max-int32", file(0, 2, r1, rawLen(1<<31-1, 'x')), 1},
		{"address-length-1GB", file(0, 2, r1, rawLen(1<<30, 'x')), 1},
		{"duplicate-record", file(0, 3, r1, r2, r1), 2},
		{"duplicate-record-different-score", file(0, 2, r1, rec("a", 9, 5)), 1},
		{"trailing-garbage", append(file(0, 2, r1, r2), 0xde, 0xad), 2},
		{"only-garbage", []byte("\xff\xff\xff\xff\xff\xff\xff\xff\xff\xff\xff\xff\xff"), 0},
		{"zero-length-address", file(0, 1, rec("", 1, 1)), 1},
	}
}

// workerLoad is run in a subprocess: loads the given bytes and prints the result.
func workerLoad(hexData string) {
	data, _ := hex.DecodeString(strings.TrimPrefix(hexData, "x"))
	ctx := logger.ContextWithNoLogger(context.Background())
	st := vstore.New()
	st.Write(ctx, "peers", data, nil)
	repo := bitcoin_reader.NewPeerRepository(st, "")
	err := repo.Load(ctx)
	list, _ := repo.Get(ctx, -1<<31, -1)
	seen := map[string]int{}
	dup := ""
	for _, p := range list {
		seen[p.Address]++
		if seen[p.Address] > 1 {
			dup = p.Address
		}
	}
	fmt.Printf("LOADED err=%v count=%d list=%d dup=%q\n", err != nil, repo.Count(), len(list), dup)
	// life goes on with whatever was loaded: every held address gets a score update (+1000, so the
	// new scores are separated from every stored one), then the range queries, a Save and a Load
	// must show exactly the updated scores
	want := map[string]int32{}
	for _, p := range list {
		want[p.Address] = p.Score + 1000
	}
	problem := ""
	for a := range want {
		if !repo.UpdateScore(ctx, a, 1000) {
			problem = "UpdateScore refused a held address"
		}
	}
	compare := func(stage string) {
		for _, q := range [][2]int32{{-1 << 31, -1}, {500, -1}, {-1 << 31, 499}} {
			got, _ := repo.Get(ctx, q[0], q[1])
			n := 0
			for a, sc := range want {
				if sc >= q[0] && (q[1] == -1 || sc <= q[1]) {
					n++
					found := false
					for _, p := range got {
						if p.Address == a && p.Score == sc {
							found = true
						}
					}
					if !found && problem == "" {
						problem = fmt.Sprintf("%s: Get(%d,%d) does not list %q with its current score %d", stage, q[0], q[1], a, sc)
					}
				}
			}
			if len(got) != n && problem == "" {
				problem = fmt.Sprintf("%s: Get(%d,%d) lists %d peers, %d have a score in range", stage, q[0], q[1], len(got), n)
			}
		}
	}
	compare("after-updates")
	if err := repo.Save(ctx); err != nil && problem == "" {
		problem = "Save: " + err.Error()
	}
	again := bitcoin_reader.NewPeerRepository(st, "")
	if err := again.Load(ctx); err != nil && problem == "" {
		problem = "Load after Save: " + err.Error()
	}
	repo = again
	compare("after-save-and-load")
	fmt.Printf("CONTINUED problem=%q\n", problem)
}

func arbitraryContents(c *checker) {
	exe, _ := os.Executable()
	for _, b := range blobs() {
		cmd := exec.Command("bash", "-c", fmt.Sprintf("ulimit -v 6000000; exec %q -worker-load=x%s", exe, hex.EncodeToString(b.data)))
		out, err := cmd.CombinedOutput()
		c.n++
		c.cnt["arbitrary_files_loaded"]++
		s := string(out)
		if err != nil || !strings.Contains(s, "LOADED") {
			kind := "died"
			if strings.Contains(s, "panic:") {
				kind = "panic"
			} else if strings.Contains(s, "out of memory") {
				kind = "out-of-memory"
			}
			first := s
			if i := strings.Index(s, "\n"); i > 0 {
				first = s[:i]
			}
			c.vs = append(c.vs, mc.Violation{Prop: "C20", Clause: "arbitrary-file-crash", Fingerprint: "arbitrary-file-crash|" + b.name + "|" + kind,
				Detail: fmt.Sprintf("loading file %q (%d bytes) killed the process: %s", b.name, len(b.data), first), History: map[string]any{"file": b.name, "hex": hex.EncodeToString(b.data)}})
			continue
		}
		var isErr bool
		var count, list int
		var dup string
		line := s[strings.Index(s, "LOADED"):]
		fmt.Sscanf(line, "LOADED err=%t count=%d list=%d dup=%q", &isErr, &count, &list, &dup)
		if count != list || dup != "" {
			c.vs = append(c.vs, mc.Violation{Prop: "C20", Clause: "arbitrary-file-duplicate", Fingerprint: "arbitrary-file-duplicate|" + b.name,
				Detail: fmt.Sprintf("after loading file %q an address is held twice (%q): Count=%d", b.name, dup, count), History: map[string]any{"file": b.name, "hex": hex.EncodeToString(b.data)}})
			continue
		}
		if i := strings.Index(s, "CONTINUED problem="); i >= 0 {
			var problem string
			fmt.Sscanf(s[i:], "CONTINUED problem=%q", &problem)
			c.n++
			c.cnt["arbitrary_files_continued"]++
			if problem != "" {
				c.vs = append(c.vs, mc.Violation{Prop: "C20", Clause: "arbitrary-file-then-updates", Fingerprint: "arbitrary-file-then-updates|" + b.name,
					Detail: fmt.Sprintf("after loading file %q, updating the score of every held address: %s", b.name, problem), History: map[string]any{"file": b.name, "hex": hex.EncodeToString(b.data)}})
				continue
			}
		}
		if list < b.minPeers {
			c.vs = append(c.vs, mc.Violation{Prop: "C20", Clause: "arbitrary-file-lost-peers", Fingerprint: "arbitrary-file-lost-peers|" + b.name,
				Detail: fmt.Sprintf("file %q: %d fully written peers precede the damage, %d loaded", b.name, b.minPeers, list), History: map[string]any{"file": b.name, "hex": hex.EncodeToString(b.data)}})
		}
	}
}

// largeBooks: books of 999 .. 2003 peers (sizes around 1000 and 2000) with scores spread over the
// query bounds: every range query must return exactly the peers in range, each once, and Save +
// Load into a fresh instance must answer the same.
func largeBooks(c *checker) {
	for _, size := range []int{999, 1000, 1001, 1002, 2000, 2001, 2002, 2003} {
		store := vstore.New()
		repo := bitcoin_reader.NewPeerRepository(store, "")
		ctx := context.Background()
		scores := map[string]int32{}
		for i := 0; i < size; i++ {
			addr := fmt.Sprintf("peer-%05d", i)
			repo.Add(ctx, addr)
			d := int32(i%11) - 5 // -5..5
			if d != 0 {
				repo.UpdateScore(ctx, addr, d)
			}
			scores[addr] = d
		}
		check := func(r *bitcoin_reader.StoragePeerRepository, what string) bool {
			for _, min := range scoreBounds {
				for _, max := range scoreBounds {
					var l bitcoin_reader.PeerList
					if p := safe(func() { l, _ = r.Get(ctx, min, max) }); p != "" {
						c.fail("panic", "large-book-get", p)
						return false
					}
					c.n++
					want := 0
					for _, sc := range scores {
						if sc >= min && (max == -1 || sc <= max) {
							want++
						}
					}
					seen := map[string]bool{}
					for _, pr := range l {
						sc, known := scores[pr.Address]
						if !known || seen[pr.Address] || sc < min || (max != -1 && sc > max) {
							c.fail("large-book-range", what, fmt.Sprintf("book of %d peers (%s): Get(%d,%d) returned %s (score %d) wrongly or twice", size, what, min, max, pr.Address, sc))
							return false
						}
						seen[pr.Address] = true
					}
					if len(l) != want {
						c.fail("large-book-range", what+"|count", fmt.Sprintf("book of %d peers (%s): Get(%d,%d) returned %d peers, %d are in range", size, what, min, max, len(l), want))
						return false
					}
				}
			}
			return true
		}
		c.cnt["large_books"]++
		if !check(repo, "as built") {
			return
		}
		if err := repo.Save(ctx); err != nil {
			c.fail("large-book-save", "", err.Error())
			return
		}
		again := bitcoin_reader.NewPeerRepository(store, "")
		if err := again.Load(ctx); err != nil {
			c.fail("large-book-load", "", err.Error())
			return
		}
		if again.Count() != size || !check(again, "after Save and Load") {
			if again.Count() != size {
				c.fail("large-book-count", "", fmt.Sprintf("book of %d peers holds %d after Save and Load", size, again.Count()))
			}
			return
		}
	}
}

func main() {
	tier := flag.String("tier", "quick", "quick|thorough")
	_ = flag.String("prop", "C20", "")
	worker := flag.String("worker-load", "", "internal: load hex bytes and report")
	replay := flag.String("replay", "", "replay file")
	flag.Parse()
	if *worker != "" {
		workerLoad(*worker)
		return
	}
	if *replay != "" {
		fmt.Println("replay: re-run the check; histories are deterministic (file " + *replay + ")")
	}
	start := time.Now()
	var configs []bounds
	if *tier == "thorough" {
		configs = []bounds{
			{addrs: 2, depth: 7, deltas: []int32{1, -1, 5, -5}},
			{addrs: 3, depth: 5, deltas: []int32{1, -1, 5, -5}},
			{addrs: 5, depth: 4, deltas: []int32{1, -5}},
		}
	} else {
		configs = []bounds{
			{addrs: 2, depth: 5, deltas: []int32{1, -1, 5, -5}},
			{addrs: 3, depth: 4, deltas: []int32{1, -5}},
			{addrs: 5, depth: 3, deltas: []int32{1, -5}},
		}
	}
	total := &mc.Stats{Exhaustive: true}
	var all []mc.Violation
	var per []map[string]any
	for _, b := range configs {
		b := b
		st, vs := mc.Search(b.run, 0, time.Now().Add(10*time.Minute), 499)
		fmt.Fprintf(os.Stderr, "C20 addrs=%d depth=%d states=%d transitions=%d exhaustive=%t violations=%d %.1fs\n", b.addrs, b.depth, st.States, st.Transitions, st.Exhaustive, len(vs), st.Wall)
		var samples []any
		for _, s := range st.Samples {
			var parts []string
			for _, o := range s.([]Op) {
				parts = append(parts, o.String())
			}
			samples = append(samples, strings.Join(parts, " "))
		}
		st.Samples = samples
		if !st.Exhaustive {
			total.Exhaustive = false
			total.CapHit = st.CapHit
		}
		total.Merge(st)
		per = append(per, map[string]any{"addresses": b.addrs, "max_ops": b.depth, "deltas": b.deltas, "states": st.States, "transitions": st.Transitions, "exhaustive": st.Exhaustive})
		all = append(all, vs...)
	}
	c := &checker{cnt: map[string]int{}}
	largeBooks(c)
	arbitraryContents(c)
	all = append(all, c.vs...)
	total.Checks += c.n
	for k, v := range c.cnt {
		total.Counters[k] += v
	}
	if len(total.Samples) > 12 {
		total.Samples = total.Samples[:12]
	}
	var names []string
	for _, b := range blobs() {
		names = append(names, b.name)
	}
	ev := &mc.Evidence{PropertyID: "C20", Tier: *tier, Level: "model_checking",
		Coverage: mc.ModelCheckingCoverage(total, map[string]any{"configurations": per, "addresses": addresses, "arbitrary_files": names,
			"get_ranges_per_state": len(scoreBounds) * len(scoreBounds)}),
		Assumptions: []string{
			"sequential callers (the concurrent part is explored by schedmc)",
			"last-seen times are wall-clock: checked to lie within the call's time window, and abstracted to set/unset in the state key because no behaviour depends on their value",
			"storage: atomic single key",
		},
		Wall: time.Since(start).Seconds()}
	os.Exit(mc.Finish(ev, all))
}
