package main

import (
	"context"
	"fmt"
	"sort"
	"strings"
	"time"

	"verif/vsched"

	"github.com/anishathalye/porcupine"
	"github.com/google/uuid"
	bitcoin_reader "github.com/tokenized/bitcoin_reader"
	"github.com/tokenized/pkg/bitcoin"
	"github.com/tokenized/pkg/wire"
)

// ---- C06: each transaction reaches the processor exactly once; no duplicate requests -----------

const txTimeout = 10 * time.Second

// history recording: a logical clock that ticks at every call and return
type txOpIn struct {
	Kind string // announce | deliver | poll | advance
	Peer int
	Tx   int
}

type txOpOut struct {
	Bool   bool
	Listed string // sorted tx indexes returned by a poll
}

type txHistory struct {
	clock int64
	ops   []porcupine.Operation
}

func (h *txHistory) call() int64 { h.clock++; return h.clock }
func (h *txHistory) done(client int, in txOpIn, out txOpOut, call int64) {
	h.clock++
	h.ops = append(h.ops, porcupine.Operation{ClientId: client, Input: in, Call: call, Output: out, Return: h.clock})
}

// reference model: the obvious map.
type txEntry struct {
	exists   bool
	lastReq  time.Duration
	received bool
	peers    [3]bool // peers that announced it and have not been asked
}

type txModelState struct {
	now time.Duration
	tx  [2]txEntry
}

var txModel = porcupine.Model{
	Init: func() interface{} { return txModelState{} },
	Step: func(state, input, output interface{}) (bool, interface{}) {
		st := state.(txModelState)
		in := input.(txOpIn)
		out := output.(txOpOut)
		switch in.Kind {
		case "advance":
			st.now += txTimeout + time.Second
			return true, st
		case "announce":
			e := &st.tx[in.Tx]
			want := false
			switch {
			case !e.exists:
				*e = txEntry{exists: true, lastReq: st.now}
				want = true
			case e.received:
			case st.now-e.lastReq < txTimeout:
				e.peers[in.Peer] = true
			default:
				e.lastReq = st.now
				e.peers[in.Peer] = false
				want = true
			}
			return out.Bool == want, st
		case "deliver":
			e := &st.tx[in.Tx]
			if !e.exists {
				*e = txEntry{exists: true, lastReq: st.now}
			}
			e.received = true
			return true, st
		case "poll":
			var listed []string
			for i := range st.tx {
				e := &st.tx[i]
				if e.exists && !e.received && e.peers[in.Peer] && st.now-e.lastReq >= txTimeout {
					e.lastReq = st.now
					e.peers[in.Peer] = false
					listed = append(listed, fmt.Sprint(i))
				}
			}
			return out.Listed == strings.Join(listed, ","), st
		}
		return false, st
	},
	Equal: func(a, b interface{}) bool { return a.(txModelState) == b.(txModelState) },
	DescribeOperation: func(input, output interface{}) string {
		return fmt.Sprintf("%+v -> %+v", input, output)
	},
}

type txProc struct {
	recProc
	saved []bitcoin.Hash32
}

func (p *txProc) SaveTx(ctx context.Context, tx *wire.MsgTx) error {
	p.saved = append(p.saved, *tx.TxHash())
	return nil
}

type txScript struct {
	peers        [][]string // per peer: sequence of "A0","D0","A1","D1"
	poll         []int      // peers polled (in order) by the poller thread
	adv          bool       // an environment thread advances the clock past the request timeout
	maxReq       int
	lateConsumer bool
	clockThread  bool // the clock is advanced by its own thread (at any point) instead of by the poller
	quickBound0  bool // quick tier: call-granularity interleavings only (preemption bound 0)
	lateProc     bool // the processor and the saver are attached only after the peers are done, right before Run starts (an order of API calls the embedding program is free to use)
}

func (s txScript) name() string {
	var ps []string
	for _, p := range s.peers {
		ps = append(ps, strings.Join(p, ""))
	}
	n := "txmanager/" + strings.Join(ps, "|")
	if len(s.poll) > 0 {
		n += fmt.Sprintf("/poll%v", s.poll)
	}
	if s.lateProc {
		n += "/processor-attached-late"
	}
	if s.adv {
		n += "/advance"
		if s.clockThread {
			n += "-anytime"
		}
	}
	return n
}

// two transactions whose ids fall into different buckets of the manager
var txPair = func() [2]*wire.MsgTx {
	a := mkTx(0)
	for i := 1; i < 64; i++ {
		b := mkTx(i)
		if a.TxHash()[0] != b.TxHash()[0] {
			return [2]*wire.MsgTx{a, b}
		}
	}
	panic("no tx pair")
}()

func txScenario(sc txScript) func() func() []string {
	return func() func() []string {
		txm := bitcoin_reader.NewTxManager(txTimeout)
		proc := &txProc{}
		if !sc.lateProc {
			txm.SetTxProcessor(proc)
			txm.SetTxSaver(proc)
		}
		h := &txHistory{}
		// set-up: one poll on the empty manager visits every bucket, which gives the manager's and
		// the 256 buckets' locks stable names (see vsched: objects first used during set-up)
		txm.GetTxRequests(bg, uuid.New(), 1)
		interrupt := make(chan interface{})
		ids := []uuid.UUID{uuid.New(), uuid.New(), uuid.New()}
		txid := [2]bitcoin.Hash32{*txPair[0].TxHash(), *txPair[1].TxHash()}
		var consumerErr error
		consumerDone := false
		consumer := func() {
			consumerErr = txm.Run(bg)
			consumerDone = true
		}
		if !sc.lateConsumer {
			vsched.GoNamed("consumer", consumer)
		}
		var wg vsched.WaitGroup
		delivered := [2]bool{}
		for p, script := range sc.peers {
			p, script := p, script
			wg.Add(1)
			vsched.GoNamed(fmt.Sprintf("peer%d", p), func() {
				defer wg.Done()
				for si, step := range script {
					if si > 0 {
						vsched.Yield() // a free switch between two calls of one peer
					}
					t := int(step[1] - '0')
					in := txOpIn{Peer: p, Tx: t}
					c := h.call()
					if step[0] == 'A' {
						in.Kind = "announce"
						ok, _ := txm.AddTxID(bg, ids[p], txid[t])
						h.done(p, in, txOpOut{Bool: ok}, c)
					} else {
						in.Kind = "deliver"
						txm.AddTx(bg, interrupt, ids[p], txPair[t])
						delivered[t] = true
						h.done(p, in, txOpOut{}, c)
					}
				}
			})
		}
		if len(sc.poll) > 0 {
			wg.Add(1)
			vsched.GoNamed("poller", func() {
				defer wg.Done()
				if sc.adv && !sc.clockThread {
					// the retry poller runs after the request timeout has passed
					c := h.call()
					vsched.Advance(txTimeout + time.Second)
					h.done(4, txOpIn{Kind: "advance"}, txOpOut{}, c)
				}
				for pi, p := range sc.poll {
					if pi > 0 {
						vsched.Yield()
					}
					c := h.call()
					list, _ := txm.GetTxRequests(bg, ids[p], sc.maxReq)
					var idx []string
					for _, id := range list {
						for i := range txid {
							if id == txid[i] {
								idx = append(idx, fmt.Sprint(i))
							}
						}
					}
					sort.Strings(idx)
					h.done(3, txOpIn{Kind: "poll", Peer: p}, txOpOut{Listed: strings.Join(idx, ",")}, c)
				}
			})
		}
		if sc.adv && sc.clockThread {
			wg.Add(1)
			vsched.GoNamed("clock", func() {
				defer wg.Done()
				c := h.call()
				vsched.Advance(txTimeout + time.Second)
				h.done(4, txOpIn{Kind: "advance"}, txOpOut{}, c)
			})
		}
		// when all peers are done the manager is stopped, so the consumer drains and returns
		vsched.GoNamed("closer", func() {
			wg.Wait()
			if sc.lateProc {
				txm.SetTxProcessor(proc)
				txm.SetTxSaver(proc)
			}
			txm.Stop(bg)
			if sc.lateConsumer {
				// The consumer only communicates through the (never full) transaction channel, so
				// running it after the producers loses no behaviour; it keeps the manager's own
				// mutex free of a writer, which would make every one of the 256 bucket visits of a
				// retry poll a decision point.
				consumer()
			}
		})
		return func() []string {
			var problems []string
			if !consumerDone || consumerErr != nil {
				problems = append(problems, fmt.Sprintf("consumer: TxManager.Run did not finish cleanly (%v)", consumerErr))
			}
			for t := range txid {
				n, saved := 0, 0
				for _, id := range proc.processed {
					if id == txid[t] {
						n++
					}
				}
				for _, id := range proc.saved {
					if id == txid[t] {
						saved++
					}
				}
				want := 0
				if delivered[t] {
					want = 1
				}
				if n != want {
					problems = append(problems, fmt.Sprintf("processed-count: transaction %d was delivered=%t but handed to the processor %d times", t, delivered[t], n))
				}
				if saved != want {
					problems = append(problems, fmt.Sprintf("saved-count: transaction %d saved %d times, expected %d", t, saved, want))
				}
			}
			// The statement is per transaction (a retry poll walks the buckets one by one and is not
			// a snapshot across transactions), so linearizability is checked for each transaction's
			// projection of the history: its announcements and deliveries, every clock advance, and
			// every poll reduced to "was this transaction listed".
			for t := range txid {
				var proj []porcupine.Operation
				for _, o := range h.ops {
					in := o.Input.(txOpIn)
					out := o.Output.(txOpOut)
					switch in.Kind {
					case "announce", "deliver":
						if in.Tx != t {
							continue
						}
						in.Tx = 0
					case "poll":
						listed := false
						for _, x := range strings.Split(out.Listed, ",") {
							if x == fmt.Sprint(t) {
								listed = true
							}
						}
						out = txOpOut{}
						if listed {
							out.Listed = "0"
						}
					}
					proj = append(proj, porcupine.Operation{ClientId: o.ClientId, Input: in, Call: o.Call, Output: out, Return: o.Return})
				}
				if res := porcupine.CheckOperations(txModel, proj); !res {
					var desc []string
					for _, o := range proj {
						desc = append(desc, fmt.Sprintf("[%d,%d] c%d %s", o.Call, o.Return, o.ClientId, txModel.DescribeOperation(o.Input, o.Output)))
					}
					problems = append(problems, fmt.Sprintf("not-linearizable: the history of transaction %d has no linearization against the reference model: %s", t, strings.Join(desc, "; ")))
				}
			}
			// outcome label: answers of announcements and polls
			var outs []string
			for _, o := range h.ops {
				in := o.Input.(txOpIn)
				out := o.Output.(txOpOut)
				switch in.Kind {
				case "announce":
					outs = append(outs, fmt.Sprintf("a%d%d:%t", in.Peer, in.Tx, out.Bool))
				case "poll":
					outs = append(outs, fmt.Sprintf("g%d:[%s]", in.Peer, out.Listed))
				}
			}
			sort.Strings(outs)
			label(strings.Join(outs, " "))
			return problems
		}
	}
}

// sameBucketTxs returns n transactions whose ids share the first byte (one bucket of the manager).
func sameBucketTxs(n int) []*wire.MsgTx {
	by := map[byte][]*wire.MsgTx{}
	for i := 0; i < 4000; i++ {
		tx := mkTx(1000 + i)
		b := tx.TxHash()[0]
		by[b] = append(by[b], tx)
		if len(by[b]) == n {
			return by[b]
		}
	}
	panic("no bucket collision found")
}

// everyBucketTxs returns 256 transactions, one for every value of the first txid byte (the tx
// manager shards its table by that byte).
func everyBucketTxs() []*wire.MsgTx {
	r := make([]*wire.MsgTx, 256)
	found := 0
	for i := 0; found < 256 && i < 200000; i++ {
		tx := mkTx(10000 + i)
		if b := tx.TxHash()[0]; r[b] == nil {
			r[b] = tx
			found++
		}
	}
	if found != 256 {
		panic("not every first byte found")
	}
	return r
}

// everyBucketScenario: one undelivered transaction per shard (first txid byte 0x00..0xff), each
// announced by two peers; after the request timeout one poll of the second announcer with a large
// maximum must offer every one of the 256, and a second poll nothing.
func everyBucketScenario() func() func() []string {
	return func() func() []string {
		txm := bitcoin_reader.NewTxManager(txTimeout)
		txs := everyBucketTxs()
		p0, p1 := uuid.New(), uuid.New()
		for _, tx := range txs {
			txm.AddTxID(bg, p0, *tx.TxHash())
			txm.AddTxID(bg, p1, *tx.TxHash())
		}
		vsched.Advance(txTimeout + time.Second)
		first, _ := txm.GetTxRequests(bg, p1, 100000)
		second, _ := txm.GetTxRequests(bg, p1, 100000)
		return func() []string {
			var problems []string
			listed := map[bitcoin.Hash32]int{}
			for _, id := range first {
				listed[id]++
			}
			for b, tx := range txs {
				if listed[*tx.TxHash()] != 1 {
					problems = append(problems, fmt.Sprintf("retry-offer-every-shard: the timed-out transaction whose txid starts with 0x%02x was offered to its second announcer %d times by a poll after the timeout, expected once (%d of 256 offered)", b, listed[*tx.TxHash()], len(first)))
					break
				}
			}
			if len(second) != 0 {
				problems = append(problems, fmt.Sprintf("retry-offer-every-shard: a second poll inside the new request window offered %d transactions again", len(second)))
			}
			label(fmt.Sprintf("first=%d second=%d", len(first), len(second)))
			return problems
		}
	}
}

// pollCapScenario: several undelivered transactions announced by two peers, the first request
// timed out, and the second announcer is polled with a small maximum until nothing is returned:
// every transaction must be offered to that peer exactly once over the polls (a transaction that
// does not fit under the maximum stays requestable), and never again afterwards.
func pollCapScenario(nTx, max int, sameBucket bool) func() func() []string {
	return func() func() []string {
		txm := bitcoin_reader.NewTxManager(txTimeout)
		var txs []*wire.MsgTx
		if sameBucket {
			txs = sameBucketTxs(nTx)
		} else {
			for i := 0; i < nTx; i++ {
				txs = append(txs, mkTx(2000+i))
			}
		}
		p0, p1 := uuid.New(), uuid.New()
		var firsts []bool
		for _, tx := range txs {
			a, _ := txm.AddTxID(bg, p0, *tx.TxHash())
			b, _ := txm.AddTxID(bg, p1, *tx.TxHash())
			firsts = append(firsts, a && !b)
		}
		vsched.Advance(txTimeout + time.Second)
		listed := map[bitcoin.Hash32]int{}
		var sizes []int
		for round := 0; round < nTx+2; round++ {
			l, _ := txm.GetTxRequests(bg, p1, max)
			sizes = append(sizes, len(l))
			for _, id := range l {
				listed[id]++
			}
			if len(l) == 0 {
				break
			}
			// requests for the listed transactions are now outstanding: they may not be listed again
			// before the timeout, but the ones that did not fit must still come
		}
		// let every further poll be after another timeout
		return func() []string {
			var problems []string
			for i, ok := range firsts {
				if !ok {
					problems = append(problems, fmt.Sprintf("announce: transaction %d: first announcer not told to request / second told to", i))
				}
			}
			for i, tx := range txs {
				if n := listed[*tx.TxHash()]; n != 1 {
					problems = append(problems, fmt.Sprintf("retry-offer-count: transaction %d of %d was offered to the second announcer %d times over the polls (max %d per poll, poll sizes %v), expected exactly once", i, nTx, n, max, sizes))
					break
				}
			}
			label(fmt.Sprintf("polls=%v", sizes))
			return problems
		}
	}
}

// cleanScenario: the periodic Clean (expired entries are dropped bucket by bucket) running while two
// peers announce, or deliver, a fresh transaction that lives in the same bucket as an expired one.
// The fresh transaction must still be requested from exactly one of the two announcers and reach
// the processor exactly once: cleaning must not lose what was inserted meanwhile.
func cleanScenario(deliver bool) func() func() []string {
	return func() func() []string {
		txm := bitcoin_reader.NewTxManager(txTimeout)
		proc := &txProc{}
		txm.SetTxProcessor(proc)
		txm.SetTxSaver(proc)
		txm.GetTxRequests(bg, uuid.New(), 1) // stable lock names (see txScenario)
		txs := sameBucketTxs(2)
		old, fresh := txs[0], txs[1]
		txm.AddTxID(bg, uuid.New(), *old.TxHash())
		vsched.Advance(time.Hour)
		cutoff := vsched.Now().Add(-30 * time.Minute)
		interrupt := make(chan interface{})
		ids := []uuid.UUID{uuid.New(), uuid.New()}
		var answers [2]bool
		var wg vsched.WaitGroup
		for p := 0; p < 2; p++ {
			p := p
			wg.Add(1)
			vsched.GoNamed(fmt.Sprintf("peer%d", p), func() {
				defer wg.Done()
				if deliver {
					txm.AddTx(bg, interrupt, ids[p], fresh)
				} else {
					answers[p], _ = txm.AddTxID(bg, ids[p], *fresh.TxHash())
				}
			})
		}
		wg.Add(1)
		vsched.GoNamed("cleaner", func() {
			defer wg.Done()
			txm.Clean(bg, cutoff)
		})
		vsched.GoNamed("closer", func() {
			wg.Wait()
			txm.Stop(bg)
			txm.Run(bg) // the consumer, after the producers (see txScenario)
		})
		return func() []string {
			var problems []string
			if deliver {
				n := 0
				for _, id := range proc.processed {
					if id == *fresh.TxHash() {
						n++
					}
				}
				if n != 1 {
					problems = append(problems, fmt.Sprintf("processed-count: the transaction delivered by two peers while Clean ran reached the processor %d times", n))
				}
				label(fmt.Sprintf("processed=%d", n))
			} else {
				if answers[0] == answers[1] {
					problems = append(problems, fmt.Sprintf("announce-during-clean: two announcers of one fresh transaction were answered request=%t and request=%t", answers[0], answers[1]))
				}
				label(fmt.Sprintf("first=%t second=%t", answers[0], answers[1]))
			}
			return problems
		}
	}
}

// cleanCutoffScenario (sequential): a transaction requested before the Clean cut-off and delivered
// after it is younger than the cut-off, so Clean keeps its record: a later announcement is not
// answered with "request" and a later delivery does not reach the processor again. Requested and
// never delivered before the cut-off, the record goes and the transaction may be requested anew.
func cleanCutoffScenario() func() func() []string {
	return func() func() []string {
		txm := bitcoin_reader.NewTxManager(txTimeout)
		proc := &txProc{}
		txm.SetTxProcessor(proc)
		txm.SetTxSaver(proc)
		interrupt := make(chan interface{})
		late, never := txPair[0], txPair[1]
		p0, p1 := uuid.New(), uuid.New()
		txm.AddTxID(bg, p0, *late.TxHash())
		txm.AddTxID(bg, p0, *never.TxHash())
		vsched.Advance(5 * time.Second)
		cutoff := vsched.Now()
		vsched.Advance(2 * time.Second)
		txm.AddTx(bg, interrupt, p0, late) // delivered after the cut-off
		txm.Clean(bg, cutoff)
		againLate, _ := txm.AddTxID(bg, p1, *late.TxHash())
		againNever, _ := txm.AddTxID(bg, p1, *never.TxHash())
		txm.AddTx(bg, interrupt, p1, late)
		vsched.GoNamed("closer", func() {
			txm.Stop(bg)
			txm.Run(bg)
		})
		return func() []string {
			var problems []string
			if againLate {
				problems = append(problems, "requested-after-delivery: a transaction delivered after the Clean cut-off was forgotten by Clean and requested again")
			}
			if !againNever {
				problems = append(problems, "expired-entry-kept: an undelivered transaction last requested before the cut-off was still on record after Clean")
			}
			n := 0
			for _, id := range proc.processed {
				if id == *late.TxHash() {
					n++
				}
			}
			if n != 1 {
				problems = append(problems, fmt.Sprintf("processed-count: the transaction reached the processor %d times", n))
			}
			label(fmt.Sprintf("late=%t never=%t processed=%d", againLate, againNever, n))
			return problems
		}
	}
}

// announcerSetsScenario (sequential): several undelivered transactions are outstanding at once,
// each with its own later announcers; after the request timeout every peer is polled and must be
// offered exactly the transactions it announced itself and was not yet asked for - the announcer
// sets of different transactions are independent of each other.
func announcerSetsScenario(nTx, extra int) func() func() []string {
	return func() func() []string {
		txm := bitcoin_reader.NewTxManager(txTimeout)
		first := uuid.New()
		var txs []*wire.MsgTx
		for i := 0; i < nTx; i++ {
			txs = append(txs, mkTx(3000+i))
		}
		// announced[peer] = transactions it announced after the first announcer was asked
		type later struct {
			id uuid.UUID
			tx []int
		}
		var peers []*later
		for i, tx := range txs {
			txm.AddTxID(bg, first, *tx.TxHash())
			for e := 0; e < extra; e++ {
				p := &later{id: uuid.New(), tx: []int{i}}
				peers = append(peers, p)
			}
		}
		// interleave the later announcements over the transactions (tx0's first, tx1's first, ...)
		var answers []bool
		for e := 0; e < extra; e++ {
			for i := range txs {
				p := peers[i*extra+e]
				ok, _ := txm.AddTxID(bg, p.id, *txs[i].TxHash())
				answers = append(answers, ok)
			}
		}
		vsched.Advance(txTimeout + time.Second)
		stranger := uuid.New()
		strangerGot, _ := txm.GetTxRequests(bg, stranger, 100)
		firstGot, _ := txm.GetTxRequests(bg, first, 100)
		// only the first later announcer of each transaction is polled: once it has been asked the
		// transaction is outstanding again
		got := map[int][]bitcoin.Hash32{}
		for i := range txs {
			l, _ := txm.GetTxRequests(bg, peers[i*extra].id, 100)
			got[i] = l
		}
		return func() []string {
			var problems []string
			for _, a := range answers {
				if a {
					problems = append(problems, "announce: a later announcer inside the request window was told to request")
				}
			}
			if len(strangerGot) != 0 || len(firstGot) != 0 {
				problems = append(problems, fmt.Sprintf("poll: a peer that announced nothing new was offered %d / %d transactions", len(strangerGot), len(firstGot)))
			}
			for i := range txs {
				if len(got[i]) != 1 || got[i][0] != *txs[i].TxHash() {
					problems = append(problems, fmt.Sprintf("announcer-sets: the peer that announced transaction %d (and only that) was offered %d transactions after the timeout, want exactly that one", i, len(got[i])))
				}
			}
			label(fmt.Sprintf("txs=%d extra=%d ok=%t", nTx, extra, len(problems) == 0))
			return problems
		}
	}
}

// freshAnnouncerScenario (sequential): a transaction asked of its first announcer has nWaiting
// further announcers inside the request window; after the timeout a peer that has NOT announced it
// before announces it and is asked (the re-request path of AddTxID); it does not deliver either.
// Every waiting announcer must still be offered the transaction by its polls, one per later window.
func freshAnnouncerScenario(nWaiting int) func() func() []string {
	return func() func() []string {
		txm := bitcoin_reader.NewTxManager(txTimeout)
		tx := mkTx(4000)
		id := *tx.TxHash()
		first, fresh := uuid.New(), uuid.New()
		var waiting []uuid.UUID
		var problems []string
		if ok, _ := txm.AddTxID(bg, first, id); !ok {
			problems = append(problems, "announce: the first announcer was not told to request")
		}
		for i := 0; i < nWaiting; i++ {
			w := uuid.New()
			waiting = append(waiting, w)
			if ok, _ := txm.AddTxID(bg, w, id); ok {
				problems = append(problems, "announce: a later announcer inside the request window was told to request")
			}
		}
		vsched.Advance(txTimeout + time.Second)
		if ok, _ := txm.AddTxID(bg, fresh, id); !ok {
			problems = append(problems, "announce: a new announcer after the timeout was not told to request")
		}
		asked := 0
		for round := 0; round < nWaiting; round++ {
			vsched.Advance(txTimeout + time.Second)
			// every waiting announcer polls; exactly one further announcer is asked per window
			got := 0
			for _, w := range waiting {
				l, _ := txm.GetTxRequests(bg, w, 100)
				if len(l) == 1 && l[0] == id {
					got++
				} else if len(l) != 0 {
					problems = append(problems, "poll: unexpected transactions offered")
				}
			}
			if got != 1 {
				problems = append(problems, fmt.Sprintf("waiting-announcer-not-asked: in window %d after the re-request through a new announcer %d of the %d waiting announcers were offered the transaction, want exactly 1", round+1, got, nWaiting))
			}
			asked += got
		}
		return func() []string {
			label(fmt.Sprintf("waiting=%d asked=%d ok=%t", nWaiting, asked, len(problems) == 0))
			return problems
		}
	}
}

// stallProc: a processor whose first call takes `stall` of virtual time.
type stallProc struct {
	txProc
	stall time.Duration
	calls int
}

func (p *stallProc) ProcessTx(ctx context.Context, tx *wire.MsgTx) (bool, error) {
	p.calls++
	if p.calls == 1 {
		vsched.Sleep(p.stall)
	}
	return p.txProc.ProcessTx(ctx, tx)
}

// backPressureScenario: the consumer is running and its processor stalls for 11 s on the first
// transaction while one peer delivers n announced transactions (the manager's hand-over channel
// holds 1000): the deliveries that do not fit wait; once the processor goes on every one of them
// reaches it exactly once and none is requested again.
func backPressureScenario(n int) func() func() []string {
	return func() func() []string {
		txm := bitcoin_reader.NewTxManager(txTimeout)
		proc := &stallProc{stall: 11 * time.Second}
		txm.SetTxProcessor(proc)
		txm.SetTxSaver(proc)
		interrupt := make(chan interface{})
		peer, other := uuid.New(), uuid.New()
		txs := make([]*wire.MsgTx, n)
		for i := range txs {
			txs[i] = mkTx(10000 + i)
		}
		done := false
		vsched.GoNamed("consumer", func() { txm.Run(bg) })
		vsched.GoNamed("peer", func() {
			for _, tx := range txs {
				txm.AddTxID(bg, peer, *tx.TxHash())
				txm.AddTx(bg, interrupt, peer, tx)
			}
			done = true
			vsched.Sleep(time.Minute)
			txm.Stop(bg)
		})
		return func() []string {
			var problems []string
			if !done {
				problems = append(problems, "delivery-blocked: the peer's deliveries did not all return")
			}
			count := map[bitcoin.Hash32]int{}
			for _, id := range proc.processed {
				count[id]++
			}
			bad := 0
			for i, tx := range txs {
				if c := count[*tx.TxHash()]; c != 1 && bad < 3 {
					bad++
					problems = append(problems, fmt.Sprintf("processed-count: delivered transaction %d of %d reached the processor %d times while the processor had stalled for 11 s (hand-over channel of 1000)", i, n, c))
				}
				if again, _ := txm.AddTxID(bg, other, *tx.TxHash()); again && bad < 3 {
					bad++
					problems = append(problems, fmt.Sprintf("requested-after-delivery: delivered transaction %d is to be requested again", i))
				}
			}
			label(fmt.Sprintf("n=%d processed=%d ok=%t", n, len(proc.processed), len(problems) == 0))
			return problems
		}
	}
}

// twoPollersScenario: one undelivered transaction, asked of its first announcer, with two further
// announcers waiting; after the timeout both of them are polled at the same time by two threads
// (two connections' retry timers firing together). In every interleaving exactly one of the two
// polls may be told to request the transaction: a request is outstanding again from that moment.
func twoPollersScenario() func() func() []string {
	return func() func() []string {
		txm := bitcoin_reader.NewTxManager(txTimeout)
		txm.SetTxProcessor(&txProc{})
		txm.GetTxRequests(bg, uuid.New(), 1) // stable names for the bucket locks (see txScenario)
		tx := txPair[0]
		id := *tx.TxHash()
		first, w1, w2 := uuid.New(), uuid.New(), uuid.New()
		txm.AddTxID(bg, first, id)
		txm.AddTxID(bg, w1, id)
		txm.AddTxID(bg, w2, id)
		vsched.Advance(txTimeout + time.Second)
		got := [2]int{}
		for i, w := range []uuid.UUID{w1, w2} {
			i, w := i, w
			vsched.GoNamed(fmt.Sprintf("poller%d", i), func() {
				l, _ := txm.GetTxRequests(bg, w, 100)
				for _, h := range l {
					if h == id {
						got[i]++
					}
				}
			})
		}
		return func() []string {
			var problems []string
			if n := got[0] + got[1]; n != 1 {
				problems = append(problems, fmt.Sprintf("requested-twice-in-one-window: two waiting announcers polled at the same time after the timeout were told to request the transaction %d times in total (poller 0: %d, poller 1: %d), want exactly once", n, got[0], got[1]))
			}
			label(fmt.Sprintf("poller0=%d poller1=%d", got[0], got[1]))
			return problems
		}
	}
}

func c06Scenarios(thorough bool) []*scenario {
	var r []*scenario
	scripts := [][]string{{"A0"}, {"D0"}, {"A0", "D0"}, {"D0", "A0"}, {"A0", "A0"}, {"D0", "D0"}}
	bounds := []int{0, 1, 2}
	if thorough {
		bounds = []int{0, 1, 2, 3}
	}
	add := func(s txScript) {
		s.maxReq = 100
		s.lateConsumer = len(s.poll) > 0
		b := bounds
		if len(s.poll) > 0 {
			// a retry poll visits 256 buckets under the manager's read lock: ~520 scheduling points
			// per poll, so these scenarios are completed to preemption bound 1
			b = []int{0, 1}
			if s.quickBound0 && !thorough {
				b = []int{0}
			}
		}
		r = append(r, &scenario{name: s.name(), bounds: b, body: txScenario(s), steps: 20000})
	}
	for i, a := range scripts {
		for _, b := range scripts[i:] {
			add(txScript{peers: [][]string{a, b}})
		}
	}
	// retry after the timeout: announcements from two peers, clock advance, polls
	add(txScript{peers: [][]string{{"A0"}, {"A0"}}, poll: []int{1, 0}, adv: true})
	add(txScript{peers: [][]string{{"A0"}, {"A0"}}, poll: []int{1}, adv: true, clockThread: true})
	add(txScript{peers: [][]string{{"A0"}, {"A0", "D0"}}, poll: []int{1}, adv: true})
	add(txScript{peers: [][]string{{"A0", "D0"}, {"A1", "D1"}}})
	// one transaction delivered more than once (by two peers, or twice by one) next to another that
	// stays outstanding and has a second announcer: after the timeout that announcer must be
	// offered it (what is counted or derived from deliveries must not leak into other transactions)
	add(txScript{peers: [][]string{{"D0", "A1"}, {"D0", "A1"}}, poll: []int{1}, adv: true, quickBound0: true})
	add(txScript{peers: [][]string{{"D0", "D0", "A1"}, {"A1"}}, poll: []int{1}, adv: true, quickBound0: true})
	// deliveries that arrive before the processor is attached (it is attached, and Run started, when
	// the peers are done): they wait in the manager and are processed once each
	for _, ps := range [][][]string{{{"D0"}, {"D0"}}, {{"A0", "D0"}, {"D1"}}, {{"D0", "D1"}, {"A1", "D1"}}} {
		sc := txScript{peers: ps, lateProc: true, maxReq: 100, lateConsumer: true}
		r = append(r, &scenario{name: sc.name(), bounds: []int{0, 1}, body: txScenario(sc), steps: 20000})
	}
	// an old undelivered transaction: three announcers and the clock passing the request timeout at
	// any point between them (the announcement after the timeout is a re-request; the next one,
	// inside the new window, must not be)
	add(txScript{peers: [][]string{{"A0"}, {"A0"}, {"A0"}}, adv: true, clockThread: true})
	add(txScript{peers: [][]string{{"A0"}, {"A0", "A0"}}, adv: true, clockThread: true})
	// the per-poll maximum (sequential): 2-5 transactions, in one bucket and spread over buckets
	for _, n := range []int{2, 3, 5} {
		for _, max := range []int{1, 2, 3} {
			for _, same := range []bool{true, false} {
				n, max, same := n, max, same
				r = append(r, &scenario{name: fmt.Sprintf("txmanager/poll-cap/%d-txs-max-%d-same-bucket-%t", n, max, same), bounds: []int{0},
					body: pollCapScenario(n, max, same), steps: 50000})
			}
		}
	}
	r = append(r, &scenario{name: "txmanager/poll-covers-every-shard", bounds: []int{0}, body: everyBucketScenario(), steps: 200000})
	// Clean running next to the handlers: ~770 scheduling points per Clean (256 buckets), bound 1
	r = append(r, &scenario{name: "txmanager/clean-while-announcing", bounds: []int{0, 1}, body: cleanScenario(false), steps: 50000})
	r = append(r, &scenario{name: "txmanager/clean-while-delivering", bounds: []int{0, 1}, body: cleanScenario(true), steps: 50000})
	for _, n := range []int{2, 3} {
		for _, e := range []int{1, 2, 5} {
			r = append(r, &scenario{name: fmt.Sprintf("txmanager/announcer-sets/%d-txs-%d-later-announcers", n, e), bounds: []int{0}, body: announcerSetsScenario(n, e), steps: 50000})
		}
	}
	// the node manager's retry poll over three real nodes, some of them stopping (outgoing queue
	// closed, not yet marked not-ready)
	for mask := 0; mask < 8; mask++ {
		r = append(r, &scenario{name: fmt.Sprintf("nodemanager/retry-poll/stopping-%03b", mask), bounds: []int{0}, body: mgrPollScenario(mask), steps: 20000000})
	}
	r = append(r, &scenario{name: "txmanager/two-pollers-at-once", bounds: []int{0, 1}, body: twoPollersScenario(), steps: 50000})
	r = append(r, &scenario{name: "txmanager/back-pressure/1010-deliveries-behind-a-stalled-processor", bounds: []int{0}, body: backPressureScenario(1010), steps: 2000000,
		note: "one canonical schedule apart from the blocking points (vsched.Quiet is not used; the scenario has two threads and the explored choices are who runs when one blocks)"})
	for _, n := range []int{1, 2} {
		r = append(r, &scenario{name: fmt.Sprintf("nodemanager/retry-poll/%d-node-left", n), bounds: []int{0}, body: mgrFewNodesScenario(n), steps: 2000000})
	}
	for _, n := range []int{1, 2, 3} {
		r = append(r, &scenario{name: fmt.Sprintf("txmanager/fresh-announcer-after-timeout/%d-waiting", n), bounds: []int{0}, body: freshAnnouncerScenario(n), steps: 50000})
	}
	r = append(r, &scenario{name: "txmanager/clean-cut-off-between-request-and-delivery", bounds: []int{0}, body: cleanCutoffScenario(), steps: 50000})
	if thorough {
		add(txScript{peers: [][]string{{"A0", "D0", "A1"}, {"A0", "D0", "A1"}}, poll: []int{1}, adv: true})
		add(txScript{peers: [][]string{{"A0", "A0"}, {"A0"}}, poll: []int{1, 1}, adv: true})
		add(txScript{peers: [][]string{{"A0", "A1"}, {"A1", "A0"}}, poll: []int{0, 1}, adv: true})
		add(txScript{peers: [][]string{{"A0"}, {"A0"}, {"A0", "D0"}}, poll: []int{1, 2}, adv: true})
		add(txScript{peers: [][]string{{"A0", "D0"}, {"A0", "D0"}, {"D0"}}})
		add(txScript{peers: [][]string{{"A0", "A1", "D0"}, {"A1", "A0", "D1"}}, poll: []int{0, 1}, adv: true})
	}
	return r
}
