package main

import (
	"context"
	"fmt"
	"time"

	"verif/netsim"
	"verif/vsched"
	"verif/vstore"

	bitcoin_reader "github.com/tokenized/bitcoin_reader"
	"github.com/tokenized/bitcoin_reader/headers"
	"github.com/tokenized/pkg/wire"
)

// ---- C13, scheduler part: what a peer has queued behind its verifying reply ---------------------
//
// The real BitcoinNode.run (hook VerifRun: reader, sender, ping and handshake threads, handler
// goroutines, the stop sequence) runs under the scheduler over a scripted connection. The peer
// performs version / verack (one fixed schedule, vsched.Quiet), and then everything else is in the
// connection at once: the verifying headers reply and, right behind it, addr and headers messages.
// A verify-only node must disconnect as soon as verification succeeds: in no interleaving of the
// reader, the handler goroutines and the node's own run loop may anything behind the reply reach the
// header repository or the address book. (For a full node the same traffic is legitimate; it is run
// as the control whose outcome shows that the messages do get through when they may.)

type countingHeaders struct {
	*headers.Repository
	process int
}

func (c *countingHeaders) ProcessHeader(ctx context.Context, h *wire.BlockHeader) error {
	c.process++
	return c.Repository.ProcessHeader(ctx, h)
}

type countingPeers struct {
	*bitcoin_reader.StoragePeerRepository
	adds int
}

func (c *countingPeers) Add(ctx context.Context, address string) (bool, error) {
	c.adds++
	return c.StoragePeerRepository.Add(ctx, address)
}

func pipelinedScenario(verifyOnly bool, behind []string) func() func() []string {
	return func() func() []string {
		store := vstore.New()
		repo := headers.NewRepository(headers.DefaultConfig(), store)
		repo.InitializeWithGenesis()
		hs := &countingHeaders{Repository: repo}
		ps := &countingPeers{StoragePeerRepository: bitcoin_reader.NewPeerRepository(store, "")}
		cfg := bitcoin_reader.DefaultConfig()
		node := bitcoin_reader.NewBitcoinNode("127.0.0.1:8333", "/verif/", cfg, hs, ps)
		if verifyOnly {
			node.SetVerifyOnly()
		}
		conn := &scriptConn{in: make(chan []byte, 16)}
		vsched.Quiet(true)
		nodeInterrupt := make(chan interface{})
		nodeReturned := false
		vsched.GoNamed("node-run", func() {
			node.VerifRun(bg, conn, nodeInterrupt)
			nodeReturned = true
		})
		for _, l := range []string{"version", "verack"} {
			vsched.Send(conn.in, netsim.Letters[l])
		}
		sent := false
		vsched.GoNamed("peer", func() {
			for i := 0; i < 200 && !node.HandshakeIsComplete(); i++ {
				vsched.Sleep(10 * time.Millisecond)
			}
			if !node.HandshakeIsComplete() {
				return
			}
			vsched.Quiet(false)
			// everything at once: the reply and what follows it are in the connection before the
			// node has looked at any of it
			stream := append([]byte{}, netsim.Letters["headers[bsv-split]"]...)
			for _, l := range behind {
				stream = append(stream, netsim.Letters[l]...)
			}
			vsched.Send(conn.in, stream)
			sent = true
			// the peer goes away a minute later, so that a node that stays connected ends too
			vsched.Sleep(time.Minute)
			vsched.Close(conn.in)
		})
		return func() []string {
			var problems []string
			if !sent {
				label("handshake-not-completed")
				return problems
			}
			if !nodeReturned {
				problems = append(problems, "node-run-not-returned: the node's run did not return")
			}
			if verifyOnly && (hs.process != 0 || ps.adds != 0) {
				problems = append(problems, fmt.Sprintf("verify-only-consumed-data: a verify-only node handed what the peer had queued behind its verifying reply to the repositories (ProcessHeader=%d, peers.Add=%d; queued: %v)", hs.process, ps.adds, behind))
			}
			label(fmt.Sprintf("verified=%t process=%d adds=%d", node.Verified(), hs.process, ps.adds))
			return problems
		}
	}
}

func c13Scenarios(thorough bool) []*scenario {
	var r []*scenario
	bounds := []int{0, 1}
	if thorough {
		bounds = []int{0, 1, 2}
	}
	for _, behind := range [][]string{{"addr[1]"}, {"headers[block1]"}, {"addr[1]", "headers[block1]"}, {"headers[block1,block2]", "addr[1]"}} {
		name := fmt.Sprintf("pipelined/verify-only/reply+%v", behind)
		r = append(r, &scenario{name: name, bounds: bounds, body: pipelinedScenario(true, behind), steps: 50000})
	}
	r = append(r, &scenario{name: "pipelined/full/reply+[addr[1] headers[block1]]", bounds: []int{0}, body: pipelinedScenario(false, []string{"addr[1]", "headers[block1]"}), steps: 50000})
	return r
}
