package main

import (
	"context"
	"errors"
	"fmt"
	"time"

	"verif/vsched"

	"github.com/google/uuid"
	bitcoin_reader "github.com/tokenized/bitcoin_reader"
	"github.com/tokenized/logger"
	"github.com/tokenized/pkg/bitcoin"
	"github.com/tokenized/pkg/merkle_proof"
	"github.com/tokenized/pkg/wire"
	"github.com/tokenized/threads"
)

var bg = logger.ContextWithNoLogger(context.Background())

func scenariosFor(prop string, thorough bool) []*scenario {
	switch prop {
	case "C16":
		return c16Scenarios(thorough)
	case "C06":
		return c06Scenarios(thorough)
	case "C05":
		return c05Scenarios(thorough)
	case "C20":
		return c20Scenarios(thorough)
	case "C15":
		return c15Scenarios(thorough)
	case "C04":
		return c04Scenarios(thorough)
	case "C14":
		return c14Scenarios(thorough)
	case "C03":
		return c03Scenarios(thorough)
	case "C13":
		return c13Scenarios(thorough)
	}
	return nil
}

// ---- recording processor / store (plain data: executed by one thread at a time) -------------

type recProc struct {
	processed []bitcoin.Hash32
	coinbase  []bitcoin.Hash32 // block hashes
	confirms  int
	failTx    bool
	// failConfirmAt: block heights whose next ConfirmTx call fails once (a transient error of the
	// processor); the same for the coinbase call
	failConfirmAt  map[int]int
	failCoinbaseAt map[bitcoin.Hash32]int
}

func (p *recProc) ProcessTx(ctx context.Context, tx *wire.MsgTx) (bool, error) {
	p.processed = append(p.processed, *tx.TxHash())
	if p.failTx {
		return false, errors.New("injected processor error")
	}
	return true, nil
}
func (p *recProc) CancelTx(ctx context.Context, txid bitcoin.Hash32) error      { return nil }
func (p *recProc) AddTxConflict(ctx context.Context, a, b bitcoin.Hash32) error { return nil }
func (p *recProc) UpdateTxChainDepth(ctx context.Context, t bitcoin.Hash32, d uint32) error {
	return nil
}
func (p *recProc) ConfirmTx(ctx context.Context, txid bitcoin.Hash32, h int, mp *merkle_proof.MerkleProof) error {
	if p.failConfirmAt[h] > 0 {
		p.failConfirmAt[h]--
		// this attempt at the block fails: it does not count as a processing of the block
		if n := len(p.coinbase); n > 0 {
			p.coinbase = p.coinbase[:n-1]
		}
		return errors.New("injected transient confirm error")
	}
	p.confirms++
	return nil
}
func (p *recProc) ProcessCoinbaseTx(ctx context.Context, hash bitcoin.Hash32, tx *wire.MsgTx) error {
	p.coinbase = append(p.coinbase, hash)
	return nil
}

type recStore struct {
	blocks map[bitcoin.Hash32]bool
	order  []bitcoin.Hash32
	// failFetchAt > 0: the failFetchAt-th FetchBlockTxIDs call fails once (a transient storage error)
	failFetchAt int
	fetches     int
}

func (s *recStore) FetchBlockTxIDs(ctx context.Context, h bitcoin.Hash32) ([]bitcoin.Hash32, bool, error) {
	s.fetches++
	if s.failFetchAt > 0 && s.fetches == s.failFetchAt {
		return nil, false, errors.New("injected transient storage error")
	}
	return nil, s.blocks[h], nil
}
func (s *recStore) AppendBlockTxIDs(ctx context.Context, h bitcoin.Hash32, ids []bitcoin.Hash32) error {
	if s.blocks == nil {
		s.blocks = map[bitcoin.Hash32]bool{}
	}
	s.blocks[h] = true
	s.order = append(s.order, h)
	return nil
}

// ---- test blocks --------------------------------------------------------------------------------

func mkTx(i int) *wire.MsgTx {
	tx := wire.NewMsgTx(1)
	var prev bitcoin.Hash32
	prev[0] = byte(i + 1)
	tx.AddTxIn(wire.NewTxIn(wire.NewOutPoint(&prev, uint32(i)), bitcoin.Script{0x51}))
	tx.AddTxOut(wire.NewTxOut(uint64(1000+i), bitcoin.Script{0x6a, byte(i)}))
	return tx
}

type testBlock struct {
	header *wire.BlockHeader
	hash   bitcoin.Hash32
	txs    []*wire.MsgTx
}

func mkBlock(n int, k int) *testBlock {
	b := &testBlock{}
	tree := merkle_proof.NewMerkleTree(true)
	for i := 0; i < k; i++ {
		tx := mkTx(n*16 + i)
		b.txs = append(b.txs, tx)
		tree.AddHash(*tx.TxHash())
	}
	b.header = &wire.BlockHeader{Version: 1, Timestamp: 1600000000 + uint32(n), Bits: 0x1d00ffff, Nonce: uint32(n)}
	if k > 0 {
		b.header.MerkleRoot = tree.RootHash()
	}
	b.hash = *b.header.BlockHash()
	return b
}

// ---- fake node: the node contract of BlockRequestor / BlockRequestCanceller -------------------

// fakeNode behaves like BitcoinNode does towards a block request: the handler is invoked at most
// once and only for the requested hash; CancelBlockRequest answers "already started" exactly when
// the block reader has been registered, and then the stream ends promptly - or the handler is
// never invoked at all when the reader is closed between registering it and starting the handler.
type fakeNode struct {
	id uuid.UUID
	mu vsched.Mutex

	requested  bool
	handler    bitcoin_reader.HandleBlock
	onStop     bitcoin_reader.OnStop
	registered bool // block reader registered
	called     bool // the handler has been called ("started" from the canceller's point of view)
	closed     bool // reader closed by a cancel

	handlerCalls int
	cancelAnswer []bool
	cancelTimes  []time.Time         // virtual time of every CancelBlockRequest call
	onCancel     func(entering bool) // harness hook: called on entry to and return from CancelBlockRequest
}

func (n *fakeNode) ID() uuid.UUID { return n.id }

func (n *fakeNode) request(handler bitcoin_reader.HandleBlock, onStop bitcoin_reader.OnStop) {
	n.mu.Lock()
	n.requested = true
	n.handler = handler
	n.onStop = onStop
	n.mu.Unlock()
}

func (n *fakeNode) CancelBlockRequest(ctx context.Context, hash bitcoin.Hash32) bool {
	if n.onCancel != nil {
		n.onCancel(true)
		defer n.onCancel(false)
	}
	vsched.Yield() // the real node takes its own lock here and may have to wait: a free switch
	n.mu.Lock()
	defer n.mu.Unlock()
	n.cancelTimes = append(n.cancelTimes, vsched.Now())
	if !n.requested {
		n.cancelAnswer = append(n.cancelAnswer, false)
		return false
	}
	if n.registered {
		// the contract of the real node (CancelBlockRequest): true only if the handler has been called
		called := n.called
		n.closed = true
		n.registered = false
		n.called = false
		n.handler = nil
		n.onStop = nil
		n.cancelAnswer = append(n.cancelAnswer, called)
		return called
	}
	n.handler = nil
	n.onStop = nil
	n.cancelAnswer = append(n.cancelAnswer, false)
	return false
}

// deliver plays the node's handleBlock for a block arriving from the peer.
func (n *fakeNode) deliver(b *testBlock, announced int) { n.deliverStall(b, announced, false) }

// deliverStall with dropWhileBusy: after the first transaction the peer drops (the node's "on
// stop" function runs) while the handler is still busy with the stream, which only ends 7 virtual
// seconds later (a slow consumer): the download is still running during that time.
func (n *fakeNode) deliverStall(b *testBlock, announced int, dropWhileBusy bool) {
	n.mu.Lock()
	handler := n.handler
	if !n.requested || handler == nil {
		n.mu.Unlock()
		return // cancelled before the download started: handler never invoked
	}
	n.registered = true
	n.mu.Unlock()

	vsched.Yield()

	n.mu.Lock()
	if n.closed {
		n.mu.Unlock()
		return // reader closed before the transaction count could be read: handler never invoked
	}
	n.called = true
	n.mu.Unlock()

	txChannel := make(chan *wire.MsgTx, 1000)
	var wait vsched.WaitGroup
	wait.Add(1)
	n.handlerCalls++
	vsched.GoNamed("handler", func() {
		handler(bg, b.header, uint64(announced), txChannel)
		wait.Done()
	})
	for _, tx := range b.txs {
		n.mu.Lock()
		closed := n.closed
		n.mu.Unlock()
		if closed {
			break // the stream ends promptly after a cancel
		}
		vsched.Send(txChannel, tx)
		if dropWhileBusy {
			n.stop()
			vsched.Sleep(7 * time.Second)
			break
		}
	}
	vsched.Close(txChannel)
	wait.Wait()
	// completeBlock
	n.mu.Lock()
	n.requested = false
	n.registered = false
	n.called = false
	n.handler = nil
	n.onStop = nil
	n.mu.Unlock()
}

// stop plays the end of the node's run(): call the registered onStop, if any.
func (n *fakeNode) stop() {
	n.mu.Lock()
	onStop := n.onStop
	n.mu.Unlock()
	if onStop != nil {
		onStop(bg)
	}
}

// ---- layer 1: one downloader, scripted node, every subset of disturbances ----------------------

type dlConfig struct {
	deliver   string // none | ok0 | ok1 | ok2 | wrong | procerr | short
	cancel    bool
	stop      bool
	interrupt bool
}

func (c dlConfig) name() string {
	s := "deliver-" + c.deliver
	if c.cancel {
		s += "+cancel"
	}
	if c.stop {
		s += "+stop"
	}
	if c.interrupt {
		s += "+interrupt"
	}
	return s
}

func downloaderScenario(c dlConfig) func() func() []string {
	return func() func() []string {
		blk := mkBlock(1, 2)
		switch c.deliver {
		case "ok0":
			blk = mkBlock(1, 0)
		case "ok1":
			blk = mkBlock(1, 1)
		case "ok3":
			blk = mkBlock(1, 3)
		}
		requested := blk.hash
		other := mkBlock(2, 1)
		proc := &recProc{failTx: c.deliver == "procerr"}
		store := &recStore{}
		bd := bitcoin_reader.NewBlockDownloader(proc, store, requested, 100)
		node := &fakeNode{id: uuid.New()}
		node.request(bd.HandleBlock, bd.Stop)
		bd.SetCanceller(node.id, node)
		interrupt := make(chan interface{})
		var runErr error
		var runTook time.Duration
		runReturned := false
		vsched.GoNamed("run", func() {
			t0 := vsched.Now()
			runErr = bd.Run(bg, interrupt)
			runTook = vsched.Since(t0)
			runReturned = true
		})
		if c.deliver != "none" {
			vsched.GoNamed("node", func() {
				switch c.deliver {
				case "wrong":
					node.deliverUnchecked(other, len(other.txs))
				case "short":
					node.deliver(blk, len(blk.txs)+1)
				default:
					node.deliver(blk, len(blk.txs))
				}
			})
		}
		if c.cancel {
			vsched.GoNamed("cancel", func() { bd.Cancel(bg) })
		}
		if c.stop {
			vsched.GoNamed("stop", func() { node.stop() })
		}
		if c.interrupt {
			vsched.GoNamed("interrupt", func() { vsched.Close(interrupt) })
		}
		return func() []string {
			var problems []string
			if !runReturned {
				problems = append(problems, "run-not-returned: BlockDownloader.Run did not return")
			}
			complete := runErr == nil
			if complete && len(store.order) != 1 {
				problems = append(problems, fmt.Sprintf("complete-without-processing: Run returned nil but the block was recorded %d times", len(store.order)))
			}
			if len(store.order) == 1 && !proc.failTx && proc.confirms != expectedConfirms(blk) {
				// C04: a block that is recorded as processed has had every relevant transaction confirmed
				problems = append(problems, fmt.Sprintf("partial-confirmation: the block was recorded as processed (Run returned %s) with %d of %d relevant transactions confirmed",
					errClass(runErr), proc.confirms, expectedConfirms(blk)))
			}
			if len(store.order) > 1 || len(proc.coinbase) > 1 {
				problems = append(problems, "processed-twice: the block was processed more than once")
			}
			if node.handlerCalls > 1 {
				problems = append(problems, "harness: handler invoked twice")
			}
			out := "run:" + errClass(runErr)
			out += "/" + tookClass(runTook)
			if runTook >= 10*time.Minute {
				// every stream of this harness ends, so nothing justifies waiting for the cancel-wait or
				// download fallback timers: a signal was lost
				problems = append(problems, "run-stalled: Run returned "+errClass(runErr)+" only "+tookClass(runTook)+" (a completion signal was lost)")
			}
			label(out)
			return problems
		}
	}
}

// expectedConfirms: the recording processor marks every transaction of the block relevant, so a
// block that is recorded as processed has one confirmation per transaction.
func expectedConfirms(b *testBlock) int { return len(b.txs) }

// deliverUnchecked delivers a block with another hash (the real node never invokes the handler for
// a hash that was not requested, so this only exercises the downloader's own wrong-block check
// when the node is asked for hash A and serves a block whose header hashes to B under A's request).
func (n *fakeNode) deliverUnchecked(b *testBlock, announced int) { n.deliver(b, announced) }

// tookClass buckets the virtual time Run needed: which (if any) of the downloader's own timeouts it
// ended through.
func tookClass(d time.Duration) string {
	switch {
	case d < 2*time.Minute:
		return "prompt"
	case d < 10*time.Minute:
		return "after-start-timeout-2m"
	case d < time.Hour:
		return "after-cancel-wait-10m"
	}
	return "after-download-timeout-1h"
}

func errClass(err error) string {
	switch {
	case err == nil:
		return "nil"
	case errors.Is(err, threads.Interrupted) || causeIs(err, threads.Interrupted):
		return "interrupted"
	case causeIs(err, bitcoin_reader.ErrTimeout):
		return "timeout"
	case causeIs(err, bitcoin_reader.ErrWrongBlock):
		return "wrong-block"
	}
	s := err.Error()
	if len(s) > 40 {
		s = s[:40]
	}
	return s
}

func causeIs(err, target error) bool {
	type causer interface{ Cause() error }
	for err != nil {
		if err == target {
			return true
		}
		c, ok := err.(causer)
		if !ok {
			return false
		}
		err = c.Cause()
	}
	return false
}

// c04Scenarios: the confirmation phase of a download against manager Cancel, peer Stop and shutdown
// (C04's clause "a block recorded as processed has had exactly its relevant transactions confirmed"
// under interleavings; the sequential content / fault enumeration is blkenum's).
func c04Scenarios(thorough bool) []*scenario {
	var r []*scenario
	for _, d := range []string{"ok2", "ok3"} {
		for mask := 1; mask < 8; mask++ {
			c := dlConfig{deliver: d, cancel: mask&1 != 0, stop: mask&2 != 0, interrupt: mask&4 != 0}
			disturbers := 0
			for m := mask; m > 0; m >>= 1 {
				disturbers += m & 1
			}
			if disturbers > 2 {
				continue
			}
			bounds := []int{0, 1}
			if disturbers == 1 || thorough {
				bounds = []int{0, 1, 2}
			}
			r = append(r, &scenario{name: "confirmations/" + c.name(), bounds: bounds, body: downloaderScenario(c), steps: 4000})
		}
	}
	return r
}

func c16Scenarios(thorough bool) []*scenario {
	var r []*scenario
	delivers := []string{"none", "ok1", "ok2", "wrong", "procerr"}
	if thorough {
		delivers = []string{"none", "ok0", "ok1", "ok2", "wrong", "procerr", "short"}
	}
	for _, d := range delivers {
		for mask := 0; mask < 8; mask++ {
			c := dlConfig{deliver: d, cancel: mask&1 != 0, stop: mask&2 != 0, interrupt: mask&4 != 0}
			disturbers := 0
			for m := mask; m > 0; m >>= 1 {
				disturbers += m & 1
			}
			// iterative preemption bounding: the bound that completes within the tier's budget
			bounds := []int{0, 1}
			if disturbers <= 1 {
				bounds = []int{0, 1, 2}
			}
			if thorough {
				bounds = []int{0, 1, 2}
				if disturbers <= 1 {
					bounds = []int{0, 1, 2, 3}
				}
			}
			r = append(r, &scenario{name: "downloader/" + c.name(), bounds: bounds, body: downloaderScenario(c), steps: 4000})
		}
	}
	r = append(r, nodeScenarios(thorough)...)
	r = append(r, realRunScenarios(thorough)...)
	r = append(r, managerScenarios(thorough)...)
	return r
}
