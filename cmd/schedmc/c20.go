package main

import (
	"context"
	"fmt"
	"sort"
	"strings"

	"verif/vsched"
	"verif/vstore"

	"github.com/anishathalye/porcupine"
	bitcoin_reader "github.com/tokenized/bitcoin_reader"
	"github.com/tokenized/pkg/storage"
)

// ---- C20 (concurrent part): the peer address book from concurrent callers ----------------------

type peerIn struct {
	Kind  string // add | score | get | count | save
	Addr  string
	Delta int32
	Min   int32
	Max   int32
}

type peerOut struct {
	Bool  bool
	Count int
	List  string // sorted "addr=score"
}

type peerState struct {
	scores map[string]int32
	saved  string // what the stored file holds: sorted "addr=score" list of the last Save ("-": no file)
}

func clonePeers(s peerState) peerState {
	n := peerState{scores: map[string]int32{}, saved: s.saved}
	for k, v := range s.scores {
		n.scores[k] = v
	}
	return n
}

func listing(scores map[string]int32) string {
	var l []string
	for a, sc := range scores {
		l = append(l, fmt.Sprintf("%s=%d", a, sc))
	}
	sort.Strings(l)
	return strings.Join(l, ",")
}

const peersKey = "verif/peers"

// yieldStore is storage whose writes take time: another caller can run between the moment a
// writer has decided what to write and the moment it reaches storage.
type yieldStore struct{ *vstore.Store }

func (s yieldStore) Write(ctx context.Context, key string, body []byte, o *storage.Options) error {
	vsched.Yield()
	return s.Store.Write(ctx, key, body, o)
}

func (s yieldStore) Remove(ctx context.Context, key string) error {
	vsched.Yield()
	return s.Store.Remove(ctx, key)
}

var peerModel = porcupine.Model{
	Init: func() interface{} { return peerState{scores: map[string]int32{}, saved: "-"} },
	Step: func(state, input, output interface{}) (bool, interface{}) {
		st := clonePeers(state.(peerState))
		in := input.(peerIn)
		out := output.(peerOut)
		switch in.Kind {
		case "add":
			_, exists := st.scores[in.Addr]
			if !exists {
				st.scores[in.Addr] = 0
			}
			return out.Bool == !exists, st
		case "score":
			_, exists := st.scores[in.Addr]
			if exists {
				st.scores[in.Addr] += in.Delta
			}
			return out.Bool == exists, st
		case "count":
			return out.Count == len(st.scores), st
		case "get":
			var l []string
			for a, sc := range st.scores {
				if sc >= in.Min && (in.Max == -1 || sc <= in.Max) {
					l = append(l, fmt.Sprintf("%s=%d", a, sc))
				}
			}
			sort.Strings(l)
			return out.List == strings.Join(l, ","), st
		case "save":
			st.saved = listing(st.scores)
			return true, st
		case "clear":
			st.scores = map[string]int32{}
			st.saved = "-"
			return true, st
		case "stored":
			// asked once, after every caller has returned: what a restart would load
			return out.List == st.saved, st
		}
		return false, st
	},
	Equal: func(a, b interface{}) bool {
		x, y := a.(peerState), b.(peerState)
		if len(x.scores) != len(y.scores) || x.saved != y.saved {
			return false
		}
		for k, v := range x.scores {
			if w, ok := y.scores[k]; !ok || w != v {
				return false
			}
		}
		return true
	},
	DescribeOperation: func(in, out interface{}) string { return fmt.Sprintf("%+v -> %+v", in, out) },
}

func peerScenario(scripts [][]peerIn) func() func() []string {
	return func() func() []string {
		store := vstore.New()
		repo := bitcoin_reader.NewPeerRepository(yieldStore{store}, peersKey)
		repo.Count() // set-up touch: gives the repository's lock a stable name
		var clock int64
		var ops []porcupine.Operation
		for c, script := range scripts {
			c, script := c, script
			vsched.GoNamed(fmt.Sprintf("caller%d", c), func() {
				for _, in := range script {
					clock++
					call := clock
					var out peerOut
					switch in.Kind {
					case "add":
						out.Bool, _ = repo.Add(bg, in.Addr)
					case "score":
						out.Bool = repo.UpdateScore(bg, in.Addr, in.Delta)
					case "count":
						out.Count = repo.Count()
					case "get":
						l, _ := repo.Get(bg, in.Min, in.Max)
						// scores are read at return (the list holds the book's own Peer records, whose
						// score is only meaningful at that moment); the membership is read later, the
						// way a caller that keeps the list while others query reads it
						scores := make([]int32, len(l))
						for i, p := range l {
							scores[i] = p.Score
						}
						vsched.Yield()
						var s []string
						for i, p := range l {
							s = append(s, fmt.Sprintf("%s=%d", p.Address, scores[i]))
						}
						sort.Strings(s)
						out.List = strings.Join(s, ",")
					case "save":
						repo.Save(bg)
					case "clear":
						repo.Clear(bg)
					}
					clock++
					ops = append(ops, porcupine.Operation{ClientId: c, Input: in, Call: call, Output: out, Return: clock})
				}
			})
		}
		return func() []string {
			var problems []string
			// what a restart would find: the stored file loaded by a fresh repository
			stored := "-"
			if _, ok := store.Get(peersKey); ok {
				fresh := bitcoin_reader.NewPeerRepository(store, peersKey)
				if err := fresh.Load(bg); err != nil {
					problems = append(problems, "stored-file-unloadable: "+err.Error())
				}
				l, _ := fresh.Get(bg, -1<<31, -1)
				sc := map[string]int32{}
				for _, p := range l {
					sc[p.Address] = p.Score
				}
				stored = listing(sc)
			}
			clock++
			ops = append(ops, porcupine.Operation{ClientId: len(scripts), Input: peerIn{Kind: "stored"}, Call: clock, Output: peerOut{List: stored}, Return: clock + 1})
			clock++
			if !porcupine.CheckOperations(peerModel, ops) {
				var d []string
				for _, o := range ops {
					d = append(d, fmt.Sprintf("[%d,%d] c%d %s", o.Call, o.Return, o.ClientId, peerModel.DescribeOperation(o.Input, o.Output)))
				}
				problems = append(problems, "not-linearizable: concurrent peer book history has no linearization: "+strings.Join(d, "; "))
			}
			// final state: no address twice
			l, _ := repo.Get(bg, -1<<31, -1)
			seen := map[string]bool{}
			for _, p := range l {
				if seen[p.Address] {
					problems = append(problems, "duplicate-address: "+p.Address+" held twice after concurrent adds")
				}
				seen[p.Address] = true
			}
			if repo.Count() != len(seen) {
				problems = append(problems, fmt.Sprintf("count-mismatch: Count()=%d, %d distinct addresses", repo.Count(), len(seen)))
			}
			var outs []string
			for _, o := range ops {
				outs = append(outs, fmt.Sprintf("%v", o.Output))
			}
			label(strings.Join(outs, ""))
			return problems
		}
	}
}

func c20Scenarios(thorough bool) []*scenario {
	a, b := "a", "peér-中文:1"
	add := func(x string) peerIn { return peerIn{Kind: "add", Addr: x} }
	score := func(x string, d int32) peerIn { return peerIn{Kind: "score", Addr: x, Delta: d} }
	get := peerIn{Kind: "get", Min: 0, Max: -1}
	getNeg := peerIn{Kind: "get", Min: -5, Max: 0}
	count := peerIn{Kind: "count"}
	save := peerIn{Kind: "save"}
	sets := map[string][][]peerIn{
		"add-a|add-a":                  {{add(a)}, {add(a)}},
		"add-a,score|add-a,score":      {{add(a), score(a, 1)}, {add(a), score(a, 5)}},
		"add-a,get|add-b,score-a":      {{add(a), get}, {add(b), score(a, -5)}},
		"add-a,score,count|add-a,get":  {{add(a), score(a, 1), count}, {add(a), getNeg}},
		"add-a|add-b|score-a,score-b":  {{add(a)}, {add(b)}, {score(a, 1), score(b, -1)}},
		"add-a,save|score-a,get|add-a": {{add(a), save}, {score(a, 5), get}, {add(a)}},
		// what reaches storage: overlapping Saves with an update in between, and Clear next to a Save
		"add-a,save|score-a,save": {{add(a), save}, {score(a, 5), save}},
		"add-a,save|clear":        {{add(a), save}, {peerIn{Kind: "clear"}}},
		"add-a,save,score-a|save": {{add(a), save, score(a, 1)}, {save}},
		// a caller keeps its result while another caller's query returns a different set
		"add-a,add-b,get|score-b,get-neg": {{add(a), add(b), get}, {score(b, -3), peerIn{Kind: "get", Min: -5, Max: -1}}},
	}
	var names []string
	for n := range sets {
		names = append(names, n)
	}
	sort.Strings(names)
	bounds := []int{0, 1, 2}
	if thorough {
		bounds = []int{0, 1, 2, 3}
	}
	var r []*scenario
	for _, n := range names {
		r = append(r, &scenario{name: "peers/" + n, bounds: bounds, body: peerScenario(sets[n]), steps: 5000})
	}
	return r
}
