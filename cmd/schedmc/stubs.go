package main

func c05Scenarios(thorough bool) []*scenario     { return nil }
func c20Scenarios(thorough bool) []*scenario     { return nil }
