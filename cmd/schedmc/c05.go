package main

import (
	"context"
	"fmt"
	"strings"
	"time"

	"verif/hdr"
	"verif/vsched"
	"verif/vstore"

	"github.com/google/uuid"
	bitcoin_reader "github.com/tokenized/bitcoin_reader"
	"github.com/tokenized/bitcoin_reader/headers"
	"github.com/tokenized/config"
	"github.com/tokenized/pkg/bitcoin"
	"github.com/tokenized/pkg/merkle_proof"
	"github.com/tokenized/pkg/wire"
)

// ---- C05: best-chain blocks from the start height are processed in order, each once ----------

// block content for a universe header: the transaction set's merkle root has to match the
// header, so blocks are built first and the header universe is not used for merkle roots here:
// the chain is built from dedicated headers whose merkle root commits to one transaction.
type chainBlock struct {
	label  string
	header *wire.BlockHeader
	hash   bitcoin.Hash32
	tx     *wire.MsgTx
	height int
}

// syncChain builds headers genesis -> a1 -> a2 ... plus an optional competing branch.
type syncChain struct {
	blocks map[bitcoin.Hash32]*chainBlock
	main   []*chainBlock // heights 1..n
	fork   []*chainBlock // competing branch (double work) starting above forkAt
}

func mkChainBlock(label string, prev bitcoin.Hash32, height int, bits uint32, n int) *chainBlock {
	tx := mkTx(100 + n)
	tree := merkle_proof.NewMerkleTree(true)
	tree.AddHash(*tx.TxHash())
	h := &wire.BlockHeader{Version: 1, PrevBlock: prev, MerkleRoot: tree.RootHash(), Timestamp: hdr.GenesisTime + 600*uint32(height), Bits: bits, Nonce: uint32(n)}
	return &chainBlock{label: label, header: h, hash: *h.BlockHash(), tx: tx, height: height}
}

func buildSyncChain(n int, forkAt int, forkLen int) *syncChain {
	c := &syncChain{blocks: map[bitcoin.Hash32]*chainBlock{}}
	prev := hdr.Genesis().Hash
	for i := 1; i <= n; i++ {
		b := mkChainBlock(fmt.Sprintf("a%d", i), prev, i, hdr.BitsL, i)
		c.main = append(c.main, b)
		c.blocks[b.hash] = b
		prev = b.hash
	}
	if forkLen > 0 {
		prev = hdr.Genesis().Hash
		if forkAt > 0 {
			prev = c.main[forkAt-1].hash
		}
		for i := 1; i <= forkLen; i++ {
			b := mkChainBlock(fmt.Sprintf("f%d", forkAt+i), prev, forkAt+i, hdr.BitsH, 50+i)
			c.fork = append(c.fork, b)
			c.blocks[b.hash] = b
			prev = b.hash
		}
	}
	return c
}

// syncSource is the scripted BlockRequestor of the sync scenarios. Per block hash it has a list of
// behaviours consumed one per request: deliver | drop | none | wrong; default deliver.
type syncSource struct {
	mu      vsched.Mutex
	chain   *syncChain
	script  map[string][]string // by block label
	store   *recStore
	log     []string // "label" per request, in order
	stored  []string // labels in the store at the time of each request
	heights []int
	nodes   []*fakeNode // every node that accepted a request, in order
	nodeFor []string    // block label of that request
	silent  []bool      // the node never answers

	cancelWindow  int // > 0: see RequestBlock
	cancelCalls   int
	cancelReturns int
}

func (s *syncSource) RequestBlock(ctx context.Context, hash bitcoin.Hash32, handler bitcoin_reader.HandleBlock,
	onStop bitcoin_reader.OnStop) (bitcoin_reader.BlockRequestCanceller, error) {

	s.mu.Lock()
	b := s.chain.blocks[hash]
	label := "?"
	if b != nil {
		label = b.label
	}
	behaviour := "deliver"
	if list := s.script[label]; len(list) > 0 {
		behaviour = list[0]
		if strings.HasSuffix(behaviour, "*") {
			behaviour = strings.TrimSuffix(behaviour, "*") // repeated for every further request
		} else {
			s.script[label] = list[1:]
		}
	}
	s.log = append(s.log, label)
	if b != nil {
		s.heights = append(s.heights, b.height)
	}
	var in []string
	for h := range s.store.blocks {
		if sb := s.chain.blocks[h]; sb != nil {
			in = append(in, sb.label)
		}
	}
	s.stored = append(s.stored, strings.Join(in, ","))
	s.mu.Unlock()
	if b == nil || behaviour == "none" {
		return nil, bitcoin_reader.ErrNodeNotAvailable
	}
	// C05 quantifies over histories, configurations and source failures, not over schedules, so the
	// source answers inside the call (no node / handler threads): the block is handed to the
	// handler, or the connection "drops", before RequestBlock returns. Interleavings of delivery,
	// cancel, stop and shutdown are C16's subject.
	node := &fakeNode{id: uuid.New()}
	if s.cancelWindow > 0 {
		// exploration is limited to the window from the first cancel call to the return of the
		// cancelWindow-th: before and after it the execution follows the one canonical schedule
		node.onCancel = func(entering bool) {
			if entering {
				if s.cancelCalls == 0 {
					vsched.Quiet(false)
				}
				s.cancelCalls++
			} else {
				s.cancelReturns++
				if s.cancelReturns == s.cancelWindow {
					vsched.Quiet(true)
				}
			}
		}
	}
	node.request(handler, onStop)
	s.mu.Lock()
	s.nodes = append(s.nodes, node)
	s.nodeFor = append(s.nodeFor, label)
	s.silent = append(s.silent, behaviour == "silent")
	s.mu.Unlock()
	feed := func(cb *chainBlock) {
		ch := make(chan *wire.MsgTx, 2)
		vsched.Send(ch, cb.tx)
		vsched.Close(ch)
		handler(bg, cb.header, 1, ch)
	}
	if strings.HasPrefix(behaviour, "late") {
		// "late<seconds>": the node accepts the request (block reader registered) and the block only
		// starts to arrive that much later - the handler is called then, unless the request was
		// cancelled meanwhile (answer "not started": the handler is never called)
		var secs int
		fmt.Sscanf(behaviour, "late%d", &secs)
		node.mu.Lock()
		node.registered = true
		node.mu.Unlock()
		vsched.GoNamed("late-node-"+label, func() {
			vsched.Sleep(time.Duration(secs) * time.Second)
			node.mu.Lock()
			closed := node.closed
			if !closed {
				node.called = true
			}
			node.mu.Unlock()
			if !closed {
				feed(b)
			}
		})
		return node, nil
	}
	if strings.HasPrefix(behaviour, "hold") {
		// "hold<seconds>": the block arrives at once and in full, but the end of the stream is only
		// seen that much later (the download has handled every transaction and waits for the
		// stream to end) - time for a second source to finish and for this one to be cancelled
		var secs int
		fmt.Sscanf(behaviour, "hold%d", &secs)
		node.mu.Lock()
		node.registered = true
		node.called = true
		node.mu.Unlock()
		vsched.GoNamed("holding-node-"+label, func() {
			ch := make(chan *wire.MsgTx, 2)
			vsched.Send(ch, b.tx)
			vsched.GoNamed("holding-handler-"+label, func() { handler(bg, b.header, 1, ch) })
			vsched.Sleep(time.Duration(secs) * time.Second)
			vsched.Close(ch)
		})
		return node, nil
	}
	slowFor := 150 * time.Second
	if strings.HasPrefix(behaviour, "slow") && behaviour != "slow" {
		// "slow<seconds>": the same with another delay
		var secs int
		fmt.Sscanf(behaviour, "slow%d", &secs)
		slowFor = time.Duration(secs) * time.Second
		behaviour = "slow"
	}
	stallFor := 12 * time.Second
	if strings.HasPrefix(behaviour, "stall") && behaviour != "stall" {
		// "stall<seconds>": the same with another delay
		var secs int
		fmt.Sscanf(behaviour, "stall%d", &secs)
		stallFor = time.Duration(secs) * time.Second
		behaviour = "stall"
	}
	switch behaviour {
	case "deliver":
		feed(b)
	case "silent":
		// the node accepts the request and never answers
	case "slow":
		// a healthy but slow source: the download starts at once and the transaction arrives 150
		// virtual seconds later (30 request-delay ticks), unless the request is cancelled meanwhile
		node.mu.Lock()
		node.registered = true
		node.called = true
		node.mu.Unlock()
		vsched.GoNamed("slow-node-"+label, func() {
			ch := make(chan *wire.MsgTx, 2)
			vsched.GoNamed("slow-handler-"+label, func() { handler(bg, b.header, 1, ch) })
			vsched.Sleep(slowFor)
			node.mu.Lock()
			closed := node.closed
			node.mu.Unlock()
			if !closed {
				vsched.Send(ch, b.tx)
			}
			vsched.Close(ch)
		})
	case "stall":
		// the one asynchronous source: the download starts (handler running) but the transaction only
		// arrives 12 virtual seconds later - time for the manager to ask a second source, which
		// finishes first. If the request is cancelled meanwhile the stream just ends.
		node.mu.Lock()
		node.registered = true
		node.mu.Unlock()
		vsched.GoNamed("stalling-node-"+label, func() {
			ch := make(chan *wire.MsgTx, 2)
			vsched.GoNamed("stalled-handler-"+label, func() { handler(bg, b.header, 1, ch) })
			vsched.Sleep(stallFor)
			node.mu.Lock()
			closed := node.closed
			node.mu.Unlock()
			if !closed {
				vsched.Send(ch, b.tx)
			}
			vsched.Close(ch)
		})
	case "drop":
		onStop(bg)
	case "wrong":
		// serves another block under this request: the downloader must refuse it
		other := s.chain.main[0]
		if other.hash == b.hash && len(s.chain.main) > 1 {
			other = s.chain.main[1]
		}
		feed(other)
	}
	return node, nil
}

type syncConfig struct {
	length       int   // main chain length above genesis
	start        int   // configured start block height
	processed    []int // heights already recorded as processed
	script       map[string][]string
	concurrent   int
	events       []string // trigger | extend | reorg
	confirmErr   []int    // heights at which the processor's ConfirmTx fails once (transient collaborator error)
	fetchErr     int      // > 0: the store's FetchBlockTxIDs fails once, at this call (transient storage error during the walk-back)
	lockedRepo   bool     // every call into the header repository is a switch point (its own lock), so that several reads of one round can be separated by an arriving header
	forkAt       int
	forkLen      int
	allCancelled bool          // oracle clause: every silent source of a block that was completed or abandoned is told to cancel before shutdown
	cancelWindow int           // > 0: only the part of the run from the first cancel call on a source to the return of the cancelWindow-th is explored; the rest follows one fixed schedule (vsched.Quiet)
	quietFor     time.Duration // the first part of the run (virtual time) follows one fixed schedule (vsched.Quiet): exploration starts after it
}

func (c syncConfig) name() string {
	s := fmt.Sprintf("sync/len%d-start%d-done%v", c.length, c.start, c.processed)
	if len(c.script) > 0 {
		var parts []string
		for k, v := range c.script {
			parts = append(parts, k+":"+strings.Join(v, "+"))
		}
		sortStrings(parts)
		s += "-src[" + strings.Join(parts, " ") + "]"
	}
	if c.concurrent > 1 {
		s += fmt.Sprintf("-conc%d", c.concurrent)
	}
	if len(c.confirmErr) > 0 {
		s += fmt.Sprintf("-confirm-error-at%v", c.confirmErr)
	}
	if c.fetchErr > 0 {
		s += fmt.Sprintf("-fetch-error-at-call-%d", c.fetchErr)
	}
	if c.lockedRepo {
		s += "-repository-calls-are-switch-points"
	}
	if len(c.events) > 0 {
		s += "+" + strings.Join(c.events, "+")
	}
	return s
}

func sortStrings(s []string) {
	for i := range s {
		for j := i + 1; j < len(s); j++ {
			if s[j] < s[i] {
				s[i], s[j] = s[j], s[i]
			}
		}
	}
}

func syncScenario(c syncConfig) func() func() []string {
	return func() func() []string {
		if c.cancelWindow > 0 {
			vsched.Quiet(true)
		} else if c.quietFor > 0 {
			vsched.Quiet(true)
			vsched.GoNamed("phase", func() {
				vsched.Sleep(c.quietFor) // fires when nothing else can run: the system is idle at the switch
				vsched.Quiet(false)
			})
		}
		chain := buildSyncChain(c.length+1, c.forkAt, c.forkLen) // one spare header for the "extend" event
		repo := headers.NewRepository(&headers.Config{Network: bitcoin.MainNet, MaxBranchDepth: 144}, vstore.New())
		repo.DisableDifficulty()
		repo.InitializeWithGenesis()
		for _, b := range chain.main[:c.length] {
			hc := b.header.Copy()
			if err := repo.ProcessHeader(bg, &hc); err != nil {
				panic(err)
			}
		}
		proc := &recProc{failConfirmAt: map[int]int{}}
		for _, h := range c.confirmErr {
			proc.failConfirmAt[h]++
		}
		store := &recStore{blocks: map[bitcoin.Hash32]bool{}, failFetchAt: c.fetchErr}
		for _, h := range c.processed {
			store.blocks[chain.main[h-1].hash] = true
		}
		script := map[string][]string{}
		for k, v := range c.script {
			script[k] = append([]string{}, v...)
		}
		src := &syncSource{chain: chain, script: script, store: store, cancelWindow: c.cancelWindow}
		cfg := bitcoin_reader.DefaultConfig()
		cfg.StartBlockHeight = c.start
		cfg.ConcurrentBlockRequests = c.concurrent
		cfg.BlockRequestDelay = config.NewDuration(5 * time.Second)
		bm := bitcoin_reader.NewBlockManager(store, src, c.concurrent, 5*time.Second)
		var nmHeaders bitcoin_reader.HeaderRepository = repo
		if c.lockedRepo {
			nmHeaders = lockedHeaders{Repository: repo, mu: &vsched.Mutex{}}
		}
		nm := bitcoin_reader.NewNodeManager("/verif/", cfg, nmHeaders, nil)
		nm.SetBlockManager(store, bm, proc)

		bmInterrupt := make(chan interface{})
		bmReturned := false
		var bmErr error
		vsched.GoNamed("block-manager", func() {
			bmErr = bm.Run(bg, bmInterrupt)
			bmReturned = true
		})
		// the first trigger (end of the start-up delay)
		nm.VerifMarkStartupDelayComplete(bg)

		var events vsched.WaitGroup
		for _, ev := range c.events {
			ev := ev
			events.Add(1)
			vsched.GoNamed("event-"+ev, func() {
				defer events.Done()
				switch ev {
				case "trigger":
					nm.TriggerBlockSynchronize(bg)
				case "trigger-later":
					// a new header arrives a minute later, when whatever the first round did is over
					vsched.Sleep(time.Minute)
					nm.TriggerBlockSynchronize(bg)
				case "extend":
					hc := chain.main[c.length].header.Copy()
					nmHeaders.ProcessHeader(bg, &hc)
					nm.TriggerBlockSynchronize(bg)
				case "reorg", "reorg-later":
					if ev == "reorg-later" {
						// 17 s into the round: several downloads of the pending block are under way
						vsched.Sleep(17 * time.Second)
					}
					for _, b := range chain.fork {
						hc := b.header.Copy()
						nmHeaders.ProcessHeader(bg, &hc)
					}
					nm.TriggerBlockSynchronize(bg)
				}
			})
		}
		finished := false
		var shutdownAt time.Time
		vsched.GoNamed("finisher", func() {
			events.Wait()
			nm.Wait(bg) // all synchronisation rounds are over
			for _, list := range c.script {
				for _, b := range list {
					if strings.HasPrefix(b, "late") {
						// whatever a late source still does has to happen before the manager is stopped
						var secs int
						fmt.Sscanf(b, "late%d", &secs)
						vsched.Sleep(time.Duration(secs+10) * time.Second)
					} else if strings.HasPrefix(b, "hold") {
						var secs int
						fmt.Sscanf(b, "hold%d", &secs)
						vsched.Sleep(time.Duration(secs+10) * time.Second)
					} else if strings.HasPrefix(b, "slow") && b != "slow" {
						var secs int
						fmt.Sscanf(b, "slow%d", &secs)
						vsched.Sleep(time.Duration(secs+10) * time.Second)
					} else if strings.HasPrefix(b, "stall") || b == "slow" {
						// the block manager keeps running after a round: let a stalled download play out
						vsched.Sleep(20 * time.Second)
					}
				}
			}
			if c.allCancelled {
				vsched.Sleep(30 * time.Second)
			}
			shutdownAt = vsched.Now()
			vsched.Close(bmInterrupt)
			finished = true
		})
		return func() []string {
			var problems []string
			if !finished || !bmReturned {
				problems = append(problems, "not-finished: block synchronisation or the block manager did not finish")
			}
			_ = bmErr
			// (a) never below the start height, (b) never an already processed block
			for i, l := range src.log {
				if i < len(src.heights) && src.heights[i] < c.start {
					problems = append(problems, fmt.Sprintf("below-start-height: block %s at height %d requested, start height is %d (requests: %v)", l, src.heights[i], c.start, src.log))
					break
				}
				for _, st := range strings.Split(src.stored[i], ",") {
					if st == l {
						problems = append(problems, fmt.Sprintf("already-processed-requested: block %s was requested although it is recorded as processed (requests: %v)", l, src.log))
					}
				}
			}
			// (c) processing order: coinbase calls ascending, each block at most once
			seen := map[bitcoin.Hash32]int{}
			last := -1
			var order []string
			for _, h := range proc.coinbase {
				b := chain.blocks[h]
				if b == nil {
					problems = append(problems, "unknown-block-processed")
					continue
				}
				order = append(order, b.label)
				seen[h]++
				if seen[h] > 1 {
					problems = append(problems, fmt.Sprintf("processed-twice: block %s processed %d times (order %v)", b.label, seen[h], order))
				}
				// contiguity: the block below it must have been processed (before this run or earlier
				// in it), unless it is the first owed block at the start height
				if b.height > c.start && seen[h] == 1 {
					parentDone := false
					for _, ph := range c.processed {
						if ph >= 1 && ph <= len(chain.main) && chain.main[ph-1].hash == b.header.PrevBlock {
							parentDone = true
						}
					}
					for _, earlier := range proc.coinbase[:len(order)-1] {
						if earlier == b.header.PrevBlock {
							parentDone = true
						}
					}
					if !parentDone {
						problems = append(problems, fmt.Sprintf("not-contiguous: block %s (height %d) processed although the block below it was not processed (order %v)", b.label, b.height, order))
					}
				}
				if b.height <= last && seen[h] == 1 && !onOtherBranch(chain, order) {
					problems = append(problems, fmt.Sprintf("out-of-order: block %s (height %d) processed after height %d (order %v)", b.label, b.height, last, order))
				}
				last = b.height
			}
			// (d) contiguity of requests within one round is implied by ascending order + (e)
			// (e) at quiescence every best-chain block from the start height is processed, unless a
			// source refused for good (script exhausted sources are 'deliver', so this must hold)
			tipHeight := repo.Height()
			from := c.start
			for _, h := range c.processed {
				if h+1 > from {
					from = h + 1 // only blocks above the most recent already-processed block are owed
				}
			}
			for h := from; h <= tipHeight; h++ {
				if h < 1 {
					continue
				}
				hash, err := repo.Hash(bg, h)
				if err != nil || hash == nil {
					continue
				}
				if !store.blocks[*hash] {
					l := "?"
					if b := chain.blocks[*hash]; b != nil {
						l = b.label
					}
					problems = append(problems, fmt.Sprintf("best-chain-block-not-processed: at quiescence block %s (height %d) of the best chain is not processed (requests %v, processed %v)", l, h, src.log, order))
					break
				}
			}
			if c.allCancelled && finished {
				for i, n := range src.nodes {
					if !src.silent[i] {
						continue
					}
					told := false
					for _, t := range n.cancelTimes {
						if t.Before(shutdownAt) {
							told = true
						}
					}
					if !told {
						problems = append(problems, fmt.Sprintf("source-not-cancelled: source %d of block %s never answered and was not told to cancel although the block was completed or abandoned long before shutdown (requests %v)", i, src.nodeFor[i], src.log))
						break
					}
				}
			}
			label(fmt.Sprintf("req=%s proc=%s", strings.Join(src.log, ","), strings.Join(order, ",")))
			return problems
		}
	}
}

func onOtherBranch(chain *syncChain, order []string) bool {
	// after a reorganisation the new branch restarts at a lower height: allowed when the labels
	// switch from the a-chain to the f-chain
	if len(order) < 2 {
		return false
	}
	return order[len(order)-1][0] != order[len(order)-2][0]
}

func c05Scenarios(thorough bool) []*scenario {
	var r []*scenario
	add := func(c syncConfig, bounds ...int) {
		if c.concurrent == 0 {
			c.concurrent = 1
		}
		if !thorough {
			bounds = []int{0} // every ordering at call granularity; the property does not quantify over schedules
			if c.lockedRepo {
				bounds = []int{0, 1} // the arriving header has to preempt the round between two of its reads
			}
		}
		note := ""
		if c.cancelWindow > 0 {
			note = fmt.Sprintf("explored window: from the first cancel call on a source to the return of cancel call %d; before and after it the execution follows the one canonical schedule (vsched.Quiet)", c.cancelWindow)
		}
		r = append(r, &scenario{name: c.name(), bounds: bounds, body: syncScenario(c), steps: 30000, note: note})
	}
	// chain length x start height x processed prefix, no disturbance
	for _, length := range []int{1, 2, 3} {
		for start := length - 2; start <= length+1; start++ {
			if start < 1 {
				continue
			}
			add(syncConfig{length: length, start: start}, 0, 1)
		}
	}
	add(syncConfig{length: 3, start: 1, processed: []int{1}}, 0, 1)
	add(syncConfig{length: 3, start: 1, processed: []int{1, 2}}, 0, 1)
	add(syncConfig{length: 3, start: 1, processed: []int{1, 2, 3}}, 0, 1)
	add(syncConfig{length: 3, start: 1, processed: []int{2}}, 0, 1) // a gap: 3 is above the most recent processed block
	// source failures followed by recovery
	add(syncConfig{length: 2, start: 1, script: map[string][]string{"a1": {"drop"}}}, 0, 1)
	add(syncConfig{length: 2, start: 1, script: map[string][]string{"a1": {"none", "none"}}}, 0, 1)
	add(syncConfig{length: 2, start: 1, script: map[string][]string{"a2": {"wrong"}}}, 0, 1)
	add(syncConfig{length: 2, start: 1, script: map[string][]string{"a1": {"drop"}, "a2": {"none"}}}, 0)
	// events during synchronisation
	add(syncConfig{length: 2, start: 1, events: []string{"trigger"}}, 0, 1)
	// two triggers inside one round (e.g. two new headers while a request is pending): the restart
	// flag is already set when the second one arrives
	add(syncConfig{length: 2, start: 1, events: []string{"trigger", "trigger"}}, 0)
	add(syncConfig{length: 2, start: 1, script: map[string][]string{"a1": {"drop"}}, events: []string{"trigger", "trigger"}}, 0)
	add(syncConfig{length: 2, start: 1, events: []string{"extend", "trigger"}}, 0)
	add(syncConfig{length: 2, start: 1, events: []string{"extend"}}, 0, 1)
	add(syncConfig{length: 2, start: 1, events: []string{"reorg"}, forkAt: 1, forkLen: 1}, 0, 1)
	add(syncConfig{length: 3, start: 1, events: []string{"reorg"}, forkAt: 1, forkLen: 2}, 0)
	// a request that is pending (the node never answers) while its block leaves the best chain:
	// the 10 s orphan check must abandon it, and a later round continues on the new best chain
	add(syncConfig{length: 3, start: 1, script: map[string][]string{"a2": {"silent", "silent"}}, events: []string{"reorg"}, forkAt: 1, forkLen: 3}, 0)
	add(syncConfig{length: 4, start: 1, processed: []int{1}, script: map[string][]string{"a3": {"silent", "silent"}}, events: []string{"reorg"}, forkAt: 2, forkLen: 3}, 0)
	// the same with the reorganisation arriving 17 s into the request - after the first 10 s check
	// found the block still on the best chain - and a source that never answers, however often asked
	add(syncConfig{length: 3, start: 1, script: map[string][]string{"a2": {"silent*"}}, events: []string{"reorg-later"}, forkAt: 1, forkLen: 3}, 0)
	// a transient error of the transaction processor while a block is being confirmed: the block is
	// asked for again, and is not on record as processed in the meantime
	add(syncConfig{length: 3, start: 1, confirmErr: []int{2}}, 0)
	// a transient storage error during the walk-back ends the round with an error; the next
	// trigger (a minute later) must start a round that processes what is owed
	for call := 1; call <= 3; call++ {
		add(syncConfig{length: 3, start: 1, fetchErr: call, events: []string{"trigger-later"}}, 0)
	}
	add(syncConfig{length: 3, start: 1, processed: []int{1}, fetchErr: 1, events: []string{"trigger-later"}}, 0)
	add(syncConfig{length: 3, start: 1, fetchErr: 1, events: []string{"trigger", "trigger-later"}}, 0, 1)
	// a header (or a reorganisation) arriving between two reads of the header repository inside one
	// round: the tip hash and the heights used by the round must belong together
	add(syncConfig{length: 2, start: 3, lockedRepo: true, events: []string{"extend"}}, 0, 1, 2)
	add(syncConfig{length: 2, start: 2, lockedRepo: true, events: []string{"extend"}}, 0, 1, 2)
	if thorough {
		add(syncConfig{length: 3, start: 1, processed: []int{1}, lockedRepo: true, events: []string{"extend"}}, 0, 1)
		add(syncConfig{length: 3, start: 1, lockedRepo: true, events: []string{"reorg"}, forkAt: 1, forkLen: 2}, 0, 1)
	}
	// one healthy but slow source and nobody else to ask: the reader keeps waiting for it (every
	// further request for the block finds no node), and goes on when the block arrives
	add(syncConfig{length: 2, start: 1, concurrent: 2, script: map[string][]string{"a1": {"slow", "none*"}}}, 0)
	// two sources for one block: the first stalls mid-download, the second (asked after the block
	// request delay) finishes first; the stalled one must not get the block processed a second time
	add(syncConfig{length: 2, start: 1, concurrent: 2, script: map[string][]string{"a1": {"stall"}}}, 0)
	// a source that accepts the request, stays silent past the two-minute start timeout and starts
	// to deliver after 150 s - unless it was told to cancel when the download was given up, which is
	// when another source is asked and serves the block
	add(syncConfig{length: 2, start: 1, script: map[string][]string{"a1": {"late150"}}}, 0)
	add(syncConfig{length: 2, start: 1, concurrent: 2, script: map[string][]string{"a1": {"late150", "late150"}}}, 0)
	// a source that delivers every transaction at once but whose stream only ends 12 s later: the
	// second source (asked after the request delay) finishes first, the first download is cancelled
	// while it waits for the end of its stream, and must not commit the block when the stream ends
	add(syncConfig{length: 2, start: 1, concurrent: 2, script: map[string][]string{"a1": {"hold12"}}}, 0, 1)
	// a download that started and then stalls for more than the one-hour download timeout: it is
	// given up, another source serves the block, and the stalled stream ends 4000 s after it began
	add(syncConfig{length: 2, start: 1, script: map[string][]string{"a1": {"slow4000"}}}, 0)
	// five sources for one block (asked 5 s apart): four never answer, the fifth delivers. When the
	// block completes the other four are cancelled one after the other, each ending - and leaving the
	// manager's list - while the next is being cancelled; every one of them must be told to cancel
	// (a source that is not keeps downloading a block that is done, or abandoned). The same with
	// four silent sources and the block leaving the best chain meanwhile (the request is abandoned).
	// Explored is the window from the first cancel call to the return of the fourth (all schedules up
	// to one preemption inside it); what comes before and after follows one fixed schedule (vsched.Quiet).
	add(syncConfig{length: 1, start: 1, concurrent: 5, script: map[string][]string{"a1": {"silent", "silent", "silent", "silent"}}, cancelWindow: 4, allCancelled: true}, 0, 1)
	add(syncConfig{length: 1, start: 1, concurrent: 4, script: map[string][]string{"a1": {"silent", "silent", "silent", "silent"}}, events: []string{"reorg-later"}, forkAt: 0, forkLen: 1, cancelWindow: 4, allCancelled: true}, 0, 1)
	if thorough {
		add(syncConfig{length: 2, start: 1, concurrent: 2, script: map[string][]string{"a1": {"drop"}}}, 0, 1)
		add(syncConfig{length: 3, start: 2, events: []string{"trigger", "extend"}}, 0, 1)
		add(syncConfig{length: 3, start: 1, events: []string{"reorg", "trigger"}, forkAt: 0, forkLen: 3}, 0)
		add(syncConfig{length: 4, start: 1, processed: []int{1}, script: map[string][]string{"a3": {"drop", "wrong"}}}, 0, 1)
	}
	return r
}
