package main

import (
	"context"
	"fmt"
	"time"

	"verif/vsched"

	"github.com/google/uuid"
	bitcoin_reader "github.com/tokenized/bitcoin_reader"
	"github.com/tokenized/pkg/bitcoin"
)

// fakeRequestor is a scripted BlockRequestor: the i-th call is answered by the i-th behaviour.
//
//	deliver  a node that serves the block
//	slow     a node that serves the block after 7 virtual seconds
//	drop     a node that disconnects (calls onStop) without serving
//	drop-busy a node that disconnects after the first transaction while the handler stays busy for 7 virtual seconds
//	silent   a node that never answers
//	wait-next a node whose block arrives while the requestor's next call is under way
//	none     no node available
type fakeRequestor struct {
	mu        vsched.Mutex
	script    []string
	blocks    map[bitcoin.Hash32]*testBlock
	calls     int
	active    map[bitcoin.Hash32]int // requests handed to a node and not yet finished
	maxSeen   int
	requests  []bitcoin.Hash32
	bm        *bitcoin_reader.BlockManager
	limit     int
	overLimit string
	waitNext  []chan struct{} // "wait-next" nodes deliver when the requestor is called the next time
	silent    []*fakeNode     // nodes that accepted a request and never answer
	silentAt  []time.Time     // when each of them was asked
}

func (r *fakeRequestor) RequestBlock(ctx context.Context, hash bitcoin.Hash32, handler bitcoin_reader.HandleBlock,
	onStop bitcoin_reader.OnStop) (bitcoin_reader.BlockRequestCanceller, error) {

	r.mu.Lock()
	i := r.calls
	r.calls++
	behaviour := "none"
	if i < len(r.script) {
		behaviour = r.script[i]
	}
	r.requests = append(r.requests, hash)
	blk := r.blocks[hash]
	waiting := r.waitNext
	r.waitNext = nil
	r.mu.Unlock()
	for _, ch := range waiting {
		vsched.Close(ch) // the earlier node's block arrives while this call is under way
	}
	if r.bm != nil {
		// concurrency limit: at the time of a new request fewer downloads of this block than the
		// configured number may be registered
		if n := r.bm.DownloaderCount(hash); n >= r.limit {
			r.mu.Lock()
			r.overLimit = fmt.Sprintf("request %d for the block issued while %d downloads of it are registered (limit %d)", i, n, r.limit)
			r.mu.Unlock()
		}
	}
	if behaviour == "none" || blk == nil {
		if len(waiting) > 0 {
			vsched.Yield() // the call takes its time (see the end of this function)
		}
		return nil, bitcoin_reader.ErrNodeNotAvailable
	}
	node := &fakeNode{id: uuid.New()}
	node.request(handler, onStop)
	if behaviour == "silent" {
		r.mu.Lock()
		r.silent = append(r.silent, node)
		r.silentAt = append(r.silentAt, vsched.Now())
		r.mu.Unlock()
	}
	var next chan struct{}
	if behaviour == "wait-next" {
		next = make(chan struct{})
		r.mu.Lock()
		r.waitNext = append(r.waitNext, next)
		r.mu.Unlock()
	}
	vsched.GoNamed(fmt.Sprintf("node%d-%s", i, behaviour), func() {
		switch behaviour {
		case "wait-next":
			vsched.Recv(next)
			node.deliver(blk, len(blk.txs))
		case "deliver":
			node.deliver(blk, len(blk.txs))
		case "slow":
			vsched.Sleep(7 * time.Second)
			node.deliver(blk, len(blk.txs))
		case "drop":
			node.stop()
		case "drop-busy":
			node.deliverStall(blk, len(blk.txs), true)
		case "silent":
		}
	})
	// the call into the requestor takes its time (it talks to a node): a free switch before it
	// returns, so that a download can finish - and the block be marked complete - while the
	// manager is still inside this call and not yet waiting in its select
	vsched.Yield()
	return node, nil
}

type mgrConfig struct {
	script     []string
	concurrent int
	requests   int
	abort      bool
	interrupt  bool
	after      time.Duration // abort / interrupt only after this much virtual time (all downloads in flight)
}

func (c mgrConfig) name() string {
	s := fmt.Sprintf("manager/req%d-conc%d-%v", c.requests, c.concurrent, c.script)
	if c.abort {
		s += "+abort"
	}
	if c.interrupt {
		s += "+interrupt"
	}
	if c.after > 0 {
		s += fmt.Sprintf("-after-%s", c.after)
	}
	return s
}

func managerScenario(c mgrConfig) func() func() []string {
	return func() func() []string {
		proc := &recProc{}
		store := &recStore{}
		req := &fakeRequestor{script: c.script, blocks: map[bitcoin.Hash32]*testBlock{}, active: map[bitcoin.Hash32]int{}}
		var blocks []*testBlock
		for i := 0; i < c.requests; i++ {
			b := mkBlock(10+i, 1)
			blocks = append(blocks, b)
			req.blocks[b.hash] = b
		}
		bm := bitcoin_reader.NewBlockManager(store, req, c.concurrent, 5*time.Second)
		req.bm, req.limit = bm, c.concurrent
		interrupt := make(chan interface{})
		managerDone := make(chan interface{})
		var runErr error
		runReturned := false
		var interruptAt, returnedAt time.Time
		vsched.GoNamed("manager", func() {
			runErr = bm.Run(bg, interrupt)
			returnedAt = vsched.Now()
			runReturned = true
			vsched.Close(managerDone)
		})
		type outcome struct {
			signals  int
			complete bool
			aborted  bool
			other    string
			gaveUp   bool
		}
		results := make([]*outcome, c.requests)
		var abortMu vsched.Mutex
		var abortCh chan<- interface{}
		requesterDone := false
		vsched.GoNamed("requester", func() {
			for i, b := range blocks {
				o := &outcome{}
				results[i] = o
				complete, abort := bm.AddRequest(bg, b.hash, 100+i, proc)
				if complete == nil {
					o.gaveUp = true
					continue
				}
				abortMu.Lock()
				abortCh = abort
				abortMu.Unlock()
				rc := vsched.RecvCase(complete)
				rd := vsched.RecvCase(managerDone)
				switch vsched.Select(false, rc, rd) {
				case 0:
					err, ok := rc.Val2()
					o.signals++
					switch {
					case !ok:
						o.complete = true
					case err == bitcoin_reader.BlockAborted:
						o.aborted = true
					default:
						o.other = fmt.Sprint(err)
					}
				case 1:
					o.gaveUp = true // the manager stopped: no signal is owed
				}
				abortMu.Lock()
				abortCh = nil
				abortMu.Unlock()
			}
			requesterDone = true
			// orderly shutdown after all requests
			if !c.interrupt {
				interruptAt = vsched.Now()
				vsched.Close(interrupt)
			}
		})
		if c.abort {
			vsched.GoNamed("aborter", func() {
				if c.after > 0 {
					vsched.Sleep(c.after)
				}
				abortMu.Lock()
				ch := abortCh
				abortMu.Unlock()
				if ch != nil {
					vsched.Close(ch)
				}
			})
		}
		if c.interrupt {
			vsched.GoNamed("interrupter", func() {
				if c.after > 0 {
					vsched.Sleep(c.after)
				}
				interruptAt = vsched.Now()
				vsched.Close(interrupt)
			})
		}
		return func() []string {
			var problems []string
			if !runReturned {
				problems = append(problems, "run-not-returned: BlockManager.Run did not return")
			}
			if runReturned && !interruptAt.IsZero() && returnedAt.Sub(interruptAt) >= 2*time.Minute {
				// shutdown cancels every download and every stream of this harness ends: waiting for a
				// download's own fallback timers means a signal was lost or a download was not told to stop
				problems = append(problems, fmt.Sprintf("shutdown-stalled: BlockManager.Run returned %s after the interrupt", returnedAt.Sub(interruptAt).Round(time.Second)))
			}
			if !interruptAt.IsZero() {
				// shutdown cancels every download: a node that was asked before the interrupt and never
				// answers must be told to cancel when the manager stops, not only when its download's
				// own two-minute request timeout fires
				for i, n := range req.silent {
					if req.silentAt[i].After(interruptAt) {
						continue
					}
					if len(n.cancelTimes) == 0 {
						problems = append(problems, fmt.Sprintf("download-never-cancelled: silent node %d was never told to cancel", i))
					} else if d := n.cancelTimes[0].Sub(interruptAt); d > 60*time.Second {
						problems = append(problems, fmt.Sprintf("download-not-cancelled-at-shutdown: silent node %d was only told to cancel %s after the interrupt (its own request timeout)", i, d.Round(time.Second)))
					}
				}
			}
			if !requesterDone {
				problems = append(problems, "requester-blocked: the requester never got a terminal signal")
			}
			lbl := ""
			for i, o := range results {
				if o == nil {
					lbl += "-"
					continue
				}
				if o.signals > 1 || (o.complete && o.aborted) {
					problems = append(problems, fmt.Sprintf("double-signal: request %d received %d terminal signals", i, o.signals))
				}
				if o.other != "" {
					problems = append(problems, fmt.Sprintf("unexpected-signal: request %d received %q", i, o.other))
				}
				if !o.complete && store.blocks[blocks[i].hash] && !c.abort && !c.interrupt {
					// nobody aborted the request and the manager was not shut down: a download of the block
					// finished without error (it is on record), so the request is owed its completion
					problems = append(problems, fmt.Sprintf("completion-lost: a downloader finished block %d and recorded it, but request %d never got the completion signal (%s)", i, i, errClass(runErr)))
				}
				if o.complete && !store.blocks[blocks[i].hash] {
					problems = append(problems, fmt.Sprintf("complete-without-download: request %d was signalled complete but no downloader finished the block", i))
				}
				switch {
				case o.complete:
					lbl += "C"
				case o.aborted:
					lbl += "A"
				case o.gaveUp:
					lbl += "g"
				default:
					lbl += "?"
				}
			}
			for _, b := range blocks {
				if n := bm.DownloaderCount(b.hash); n != 0 {
					problems = append(problems, fmt.Sprintf("downloaders-left: %d downloaders still registered at quiescence", n))
				}
			}
			if req.overLimit != "" {
				problems = append(problems, "concurrency-limit: "+req.overLimit)
			}
			label(fmt.Sprintf("%s/run:%s", lbl, errClass(runErr)))
			return problems
		}
	}
}

// queueFullScenario: one request in progress on a node that never answers, ten more filling the
// manager's request queue, and a twelfth AddRequest blocked inside the queue - then the shutdown
// interrupt. The interrupt must reach the request in progress: Run returns, the blocked caller is
// released, no downloader is left.
func queueFullScenario() func() func() []string {
	return func() func() []string {
		proc := &recProc{}
		store := &recStore{}
		req := &fakeRequestor{script: []string{"silent"}, blocks: map[bitcoin.Hash32]*testBlock{}, active: map[bitcoin.Hash32]int{}}
		var blocks []*testBlock
		for i := 0; i < 12; i++ {
			b := mkBlock(40+i, 1)
			blocks = append(blocks, b)
			req.blocks[b.hash] = b
		}
		bm := bitcoin_reader.NewBlockManager(store, req, 1, 5*time.Second)
		req.bm, req.limit = bm, 1
		interrupt := make(chan interface{})
		runReturned, adderDone := false, false
		added := 0
		var interruptAt, returnedAt time.Time
		vsched.GoNamed("manager", func() {
			bm.Run(bg, interrupt)
			returnedAt = vsched.Now()
			runReturned = true
		})
		vsched.GoNamed("adder", func() {
			for i, b := range blocks {
				bm.AddRequest(bg, b.hash, 200+i, proc)
				added++
			}
			adderDone = true
		})
		vsched.GoNamed("interrupter", func() {
			vsched.Sleep(3 * time.Second) // the twelfth AddRequest is blocked by now
			interruptAt = vsched.Now()
			vsched.Close(interrupt)
		})
		return func() []string {
			var problems []string
			if !runReturned {
				problems = append(problems, fmt.Sprintf("run-not-returned: BlockManager.Run did not return after the interrupt with its request queue full (%d of 12 AddRequest calls had returned)", added))
			}
			if runReturned && returnedAt.Sub(interruptAt) >= 2*time.Minute {
				problems = append(problems, fmt.Sprintf("shutdown-stalled: BlockManager.Run returned %s after the interrupt with its request queue full (the interrupt did not reach the request in progress; it ended through the download's own timers)", returnedAt.Sub(interruptAt).Round(time.Second)))
			}
			if !adderDone {
				problems = append(problems, fmt.Sprintf("add-request-blocked: the caller of AddRequest was never released (%d of 12 calls returned)", added))
			}
			for _, b := range blocks {
				if n := bm.DownloaderCount(b.hash); n != 0 {
					problems = append(problems, fmt.Sprintf("downloaders-left: %d downloaders still registered at quiescence", n))
				}
			}
			label(fmt.Sprintf("added=%d run=%t", added, runReturned))
			return problems
		}
	}
}

func managerScenarios(thorough bool) []*scenario {
	var r []*scenario
	qfBounds := []int{0, 1}
	if thorough {
		qfBounds = []int{0, 1, 2}
	}
	r = append(r, &scenario{name: "manager/queue-full-12-requests+interrupt", bounds: qfBounds, body: queueFullScenario(), steps: 50000})
	configs := []mgrConfig{
		{script: []string{"deliver"}, concurrent: 1, requests: 1},
		{script: []string{"deliver"}, concurrent: 1, requests: 1, abort: true},
		{script: []string{"deliver"}, concurrent: 1, requests: 1, interrupt: true},
		{script: []string{"drop", "deliver"}, concurrent: 1, requests: 1},
		{script: []string{"none", "deliver"}, concurrent: 1, requests: 1},
		{script: []string{"silent", "deliver"}, concurrent: 2, requests: 1},
		{script: []string{"slow", "deliver"}, concurrent: 2, requests: 1},
		{script: []string{"deliver", "deliver"}, concurrent: 1, requests: 2},
		{script: []string{"drop-busy", "deliver"}, concurrent: 1, requests: 1},
		// four downloads of one block in flight (the node command runs five), then abort / shutdown:
		// every one of them has to be cancelled while others finish and leave the list
		{script: []string{"silent", "silent", "silent", "silent"}, concurrent: 4, requests: 1, interrupt: true, after: 16 * time.Second},
	}
	// no node can ever serve the block: the manager gives up after twenty request ticks and its Run
	// returns the error by itself (nobody interrupts it); a request queued behind the failed one, or
	// added afterwards, is refused or dropped with the manager visibly stopped - never left waiting
	// on a manager that still looks alive
	configs = append(configs,
		mgrConfig{script: []string{"none"}, concurrent: 1, requests: 1},
		mgrConfig{script: []string{"none"}, concurrent: 1, requests: 2},
		mgrConfig{script: []string{"drop"}, concurrent: 2, requests: 2},
		// the first source's block arrives exactly while the manager is inside its next request to
		// the requestor (second source of the same block): the completion must not be missed
		mgrConfig{script: []string{"wait-next", "none"}, concurrent: 2, requests: 1})
	if thorough {
		configs = append(configs,
			mgrConfig{script: []string{"slow", "deliver"}, concurrent: 2, requests: 1, abort: true},
			mgrConfig{script: []string{"slow", "slow"}, concurrent: 2, requests: 1, interrupt: true},
			mgrConfig{script: []string{"drop", "drop", "deliver"}, concurrent: 1, requests: 1},
			mgrConfig{script: []string{"deliver", "drop", "deliver"}, concurrent: 1, requests: 2, abort: true},
			mgrConfig{script: []string{"silent", "silent", "deliver"}, concurrent: 3, requests: 1},
			mgrConfig{script: []string{"silent", "silent", "silent", "silent"}, concurrent: 4, requests: 1, abort: true, after: 16 * time.Second},
			mgrConfig{script: []string{"drop-busy", "drop-busy", "deliver"}, concurrent: 2, requests: 1, interrupt: false, abort: false},
		)
	}
	for _, c := range configs {
		// bound 0 already covers every ordering at call granularity (switches at blocking
		// operations, thread exits and harness yields are free); higher bounds add switches inside calls
		bounds := []int{0, 1}
		if c.abort || c.interrupt || c.requests > 1 {
			bounds = []int{0}
		}
		if thorough {
			bounds = []int{0, 1, 2}
			if c.abort || c.interrupt || c.requests > 1 {
				bounds = []int{0, 1}
			}
		}
		r = append(r, &scenario{name: c.name(), bounds: bounds, body: managerScenario(c), steps: 20000})
	}
	return r
}
