package main

import (
	"bytes"
	"context"
	"errors"
	"fmt"
	"net"
	"sort"
	"strings"
	"time"

	"verif/netsim"
	"verif/vsched"
	"verif/vstore"

	bitcoin_reader "github.com/tokenized/bitcoin_reader"
	"github.com/tokenized/bitcoin_reader/headers"
	"github.com/tokenized/pkg/wire"
)

// ---- C15 (concurrent part): the outgoing message queue while the node stops ---------------------
//
// A peer that stops reading while it keeps sending reply-eliciting messages fills the node's
// outgoing queue: handler goroutines then wait inside MessageChannel.Add. When the node stops (the
// handshake timeout, a read error, an interrupt) the queue is closed while they wait. The process
// must keep running: no interleaving of waiting adders, the sender thread draining the queue and
// Close may panic (a send on a closed channel in a bare goroutine aborts the process), and every
// message whose Add reported success was handed to the sender exactly once.
func msgChannelScenario(capacity int, adders [][]uint64, closers int) func() func() []string {
	return func() func() []string {
		ch := &bitcoin_reader.MessageChannel{}
		ch.Open(capacity)
		results := map[uint64]string{}
		var drained []uint64
		for i, script := range adders {
			script := script
			vsched.GoNamed(fmt.Sprintf("handler%d", i), func() {
				for _, nonce := range script {
					err := ch.Add(wire.NewMsgPong(nonce))
					switch {
					case err == nil:
						results[nonce] = "queued"
					case errors.Is(err, bitcoin_reader.ErrChannelClosed):
						results[nonce] = "closed"
					default:
						results[nonce] = "error:" + err.Error()
					}
				}
			})
		}
		vsched.GoNamed("sender", func() {
			for { // the body of sendOutgoing: range over the queue until it is closed
				msg, ok := vsched.Recv2[wire.Message](ch.Channel)
				if !ok {
					return
				}
				drained = append(drained, msg.(*wire.MsgPong).Nonce)
			}
		})
		for i := 0; i < closers; i++ {
			vsched.GoNamed(fmt.Sprintf("stop%d", i), func() { ch.Close() })
		}
		return func() []string {
			var problems []string
			seen := map[uint64]int{}
			for _, n := range drained {
				seen[n]++
			}
			var outs []string
			for _, script := range adders {
				for _, n := range script {
					r := results[n]
					outs = append(outs, fmt.Sprintf("%d:%s/%d", n, r, seen[n]))
					switch {
					case r == "queued" && seen[n] != 1:
						problems = append(problems, fmt.Sprintf("queued-message-lost-or-duplicated: Add(%d) reported success but the sender saw it %d times", n, seen[n]))
					case r == "closed" && seen[n] != 0:
						problems = append(problems, fmt.Sprintf("refused-message-sent: Add(%d) reported the queue closed but the sender saw the message", n))
					case strings.HasPrefix(r, "error:") || r == "":
						problems = append(problems, fmt.Sprintf("add-outcome: Add(%d) ended with %q", n, r))
					}
				}
			}
			sort.Strings(outs)
			label(strings.Join(outs, " "))
			return problems
		}
	}
}

// byteConn is a connection whose peer has sent exactly the given bytes.
type byteConn struct{ r *bytes.Reader }

func (c *byteConn) Read(b []byte) (int, error)         { return c.r.Read(b) }
func (c *byteConn) Write(b []byte) (int, error)        { return len(b), nil }
func (c *byteConn) Close() error                       { return nil }
func (c *byteConn) LocalAddr() net.Addr                { return nil }
func (c *byteConn) RemoteAddr() net.Addr               { return nil }
func (c *byteConn) SetDeadline(t time.Time) error      { return nil }
func (c *byteConn) SetReadDeadline(t time.Time) error  { return nil }
func (c *byteConn) SetWriteDeadline(t time.Time) error { return nil }

// dispatchScenario: the real message dispatcher (handleMessage and the handler it selects) working
// through a peer's messages while the rest of the program uses the same node: a block is requested
// and cancelled, handlers are replaced. Under the scheduler: no panic, no deadlock. Its main use is
// the free-running race-detector pass over the same body: the handler table is shared between the
// connection's reader and every caller of the node's API, and an unsynchronised access to it is a
// concurrent map access, which aborts the process.
func dispatchScenario(letters []string, api string) func() func() []string {
	return func() func() []string {
		store := vstore.New()
		repo := headers.NewRepository(headers.DefaultConfig(), store)
		repo.InitializeWithGenesis()
		peers := bitcoin_reader.NewPeerRepository(store, "")
		cfg := bitcoin_reader.DefaultConfig()
		node := bitcoin_reader.NewBitcoinNode("127.0.0.1:8333", "/verif/", cfg, repo, peers)
		txm := bitcoin_reader.NewTxManager(10 * time.Second)
		proc := &recProc{}
		txm.SetTxProcessor(proc)
		node.SetTxManager(txm)
		node.VerifOpenOutgoing()
		interrupt := make(chan interface{})
		node.VerifSetInterrupt(interrupt)
		if err := node.VerifAccept(bg); err != nil {
			panic(err)
		}
		var stream []byte
		for _, l := range letters {
			stream = append(stream, netsim.Letters[l]...)
		}
		conn := &byteConn{r: bytes.NewReader(stream)}
		handled := 0
		var handleErr error
		vsched.GoNamed("reader", func() {
			for range letters {
				if err := node.VerifHandleMessage(bg, conn); err != nil {
					handleErr = err
					return
				}
				handled++
			}
		})
		blk := mkBlock(1, 1)
		vsched.GoNamed("api", func() {
			switch api {
			case "request+cancel":
				node.RequestBlock(bg, blk.hash, func(ctx context.Context, h *wire.BlockHeader, n uint64, ch <-chan *wire.MsgTx) error {
					for {
						if _, ok := vsched.Recv2(ch); !ok {
							return nil
						}
					}
				}, func(ctx context.Context) {})
				node.CancelBlockRequest(bg, blk.hash)
			case "request-headers":
				node.RequestHeaders(bg)
			}
		})
		return func() []string {
			label(fmt.Sprintf("handled=%d err=%v", handled, handleErr != nil))
			return nil
		}
	}
}

// slowHeaders is a header repository whose ProcessHeader takes (virtual) time.
type slowHeaders struct {
	*headers.Repository
	delay time.Duration
	busy  *bool
}

func (s slowHeaders) ProcessHeader(ctx context.Context, h *wire.BlockHeader) error {
	*s.busy = true
	vsched.Sleep(s.delay)
	*s.busy = false
	return s.Repository.ProcessHeader(ctx, h)
}

// watchedConn is a byteConn that notes reads made while the slow handler is in the middle of its
// message: only the dispatcher can be the reader then, and it must not touch the stream before the
// handler of the previous message has finished with it.
type watchedConn struct {
	byteConn
	busy     *bool
	overlaps *int
}

func (c *watchedConn) Read(b []byte) (int, error) {
	if *c.busy {
		*c.overlaps++
	}
	return c.byteConn.Read(b)
}

// slowHandlerScenario (C14): a headers message whose handling takes longer than the dispatcher's
// patience (its warning timers: 3 s, 10 s for tx, one minute for block), followed by a ping. The
// dispatcher keeps waiting for the handler; it does not go on to the next message while the
// previous one is still being read.
func slowHandlerScenario(delay time.Duration) func() func() []string {
	return func() func() []string {
		store := vstore.New()
		repo := headers.NewRepository(headers.DefaultConfig(), store)
		repo.InitializeWithGenesis()
		peers := bitcoin_reader.NewPeerRepository(store, "")
		busy, overlaps := false, 0
		node := bitcoin_reader.NewBitcoinNode("127.0.0.1:8333", "/verif/", bitcoin_reader.DefaultConfig(), slowHeaders{repo, delay, &busy}, peers)
		node.VerifOpenOutgoing()
		node.VerifSetInterrupt(make(chan interface{}))
		if err := node.VerifAccept(bg); err != nil {
			panic(err)
		}
		letters := []string{"headers[block1,block2]", "ping"}
		var stream []byte
		for _, l := range letters {
			stream = append(stream, netsim.Letters[l]...)
		}
		conn := &watchedConn{byteConn: byteConn{r: bytes.NewReader(stream)}, busy: &busy, overlaps: &overlaps}
		handled := 0
		var handleErr error
		vsched.GoNamed("reader", func() {
			for range letters {
				if err := node.VerifHandleMessage(bg, conn); err != nil {
					handleErr = err
					return
				}
				handled++
			}
		})
		return func() []string {
			var problems []string
			if overlaps > 0 {
				problems = append(problems, fmt.Sprintf("next-message-read-while-handler-running: the stream was read %d times while the handler of the previous message was still busy with it", overlaps))
			}
			if handleErr != nil {
				problems = append(problems, "well-formed-stream-refused: "+handleErr.Error())
			}
			if repo.Height() != 2 {
				problems = append(problems, fmt.Sprintf("headers-not-processed: repository height %d after a headers message with blocks 1 and 2", repo.Height()))
			}
			label(fmt.Sprintf("handled=%d overlaps=%d", handled, overlaps))
			return problems
		}
	}
}

func c14Scenarios(thorough bool) []*scenario {
	var r []*scenario
	for _, d := range []time.Duration{time.Second, 4 * time.Second, 70 * time.Second} {
		r = append(r, &scenario{name: fmt.Sprintf("dispatch/slow-headers-handler-%s+ping", d), bounds: []int{0, 1}, body: slowHandlerScenario(d), steps: 20000})
	}
	return r
}

func c15Scenarios(thorough bool) []*scenario {
	bounds := []int{0, 1, 2}
	if thorough {
		bounds = []int{0, 1, 2, 3}
	}
	type sc struct {
		name     string
		capacity int
		adders   [][]uint64
		closers  int
	}
	list := []sc{
		{"outgoing/cap1-2handlers+stop", 1, [][]uint64{{1, 2}, {3}}, 1},
		{"outgoing/cap1-1handler-3msgs+stop", 1, [][]uint64{{1, 2, 3}}, 1},
		{"outgoing/cap2-3handlers+stop", 2, [][]uint64{{1, 2}, {3, 4}, {5}}, 1},
		{"outgoing/cap1-2handlers+2stops", 1, [][]uint64{{1, 2}, {3}}, 2},
	}
	var r []*scenario
	for _, s := range list {
		r = append(r, &scenario{name: s.name, bounds: bounds, body: msgChannelScenario(s.capacity, s.adders, s.closers), steps: 5000})
	}
	for _, d := range []struct {
		name    string
		letters []string
		api     string
	}{
		{"dispatch/extended-tx+block|request+cancel", []string{"extmsg/tx[tx0]", "extmsg/block[block1]", "extmsg/unknown[0]"}, "request+cancel"},
		{"dispatch/classic-tx+inv+ping|request+cancel", []string{"tx[tx0]", "inv[tx0]", "ping"}, "request+cancel"},
		{"dispatch/headers+addr|request-headers", []string{"headers[block1]", "addr[1]"}, "request-headers"},
	} {
		r = append(r, &scenario{name: d.name, bounds: []int{0, 1}, body: dispatchScenario(d.letters, d.api), steps: 20000})
	}
	return r
}
