package main

import (
	"errors"
	"fmt"
	"sort"
	"strings"

	"verif/vsched"

	bitcoin_reader "github.com/tokenized/bitcoin_reader"
	"github.com/tokenized/pkg/wire"
)

// ---- C15 (concurrent part): the outgoing message queue while the node stops ---------------------
//
// A peer that stops reading while it keeps sending reply-eliciting messages fills the node's
// outgoing queue: handler goroutines then wait inside MessageChannel.Add. When the node stops (the
// handshake timeout, a read error, an interrupt) the queue is closed while they wait. The process
// must keep running: no interleaving of waiting adders, the sender thread draining the queue and
// Close may panic (a send on a closed channel in a bare goroutine aborts the process), and every
// message whose Add reported success was handed to the sender exactly once.
func msgChannelScenario(capacity int, adders [][]uint64, closers int) func() func() []string {
	return func() func() []string {
		ch := &bitcoin_reader.MessageChannel{}
		ch.Open(capacity)
		results := map[uint64]string{}
		var drained []uint64
		for i, script := range adders {
			script := script
			vsched.GoNamed(fmt.Sprintf("handler%d", i), func() {
				for _, nonce := range script {
					err := ch.Add(wire.NewMsgPong(nonce))
					switch {
					case err == nil:
						results[nonce] = "queued"
					case errors.Is(err, bitcoin_reader.ErrChannelClosed):
						results[nonce] = "closed"
					default:
						results[nonce] = "error:" + err.Error()
					}
				}
			})
		}
		vsched.GoNamed("sender", func() {
			for { // the body of sendOutgoing: range over the queue until it is closed
				msg, ok := vsched.Recv2[wire.Message](ch.Channel)
				if !ok {
					return
				}
				drained = append(drained, msg.(*wire.MsgPong).Nonce)
			}
		})
		for i := 0; i < closers; i++ {
			vsched.GoNamed(fmt.Sprintf("stop%d", i), func() { ch.Close() })
		}
		return func() []string {
			var problems []string
			seen := map[uint64]int{}
			for _, n := range drained {
				seen[n]++
			}
			var outs []string
			for _, script := range adders {
				for _, n := range script {
					r := results[n]
					outs = append(outs, fmt.Sprintf("%d:%s/%d", n, r, seen[n]))
					switch {
					case r == "queued" && seen[n] != 1:
						problems = append(problems, fmt.Sprintf("queued-message-lost-or-duplicated: Add(%d) reported success but the sender saw it %d times", n, seen[n]))
					case r == "closed" && seen[n] != 0:
						problems = append(problems, fmt.Sprintf("refused-message-sent: Add(%d) reported the queue closed but the sender saw the message", n))
					case strings.HasPrefix(r, "error:") || r == "":
						problems = append(problems, fmt.Sprintf("add-outcome: Add(%d) ended with %q", n, r))
					}
				}
			}
			sort.Strings(outs)
			label(strings.Join(outs, " "))
			return problems
		}
	}
}

func c15Scenarios(thorough bool) []*scenario {
	bounds := []int{0, 1, 2}
	if thorough {
		bounds = []int{0, 1, 2, 3}
	}
	type sc struct {
		name     string
		capacity int
		adders   [][]uint64
		closers  int
	}
	list := []sc{
		{"outgoing/cap1-2handlers+stop", 1, [][]uint64{{1, 2}, {3}}, 1},
		{"outgoing/cap1-1handler-3msgs+stop", 1, [][]uint64{{1, 2, 3}}, 1},
		{"outgoing/cap2-3handlers+stop", 2, [][]uint64{{1, 2}, {3, 4}, {5}}, 1},
		{"outgoing/cap1-2handlers+2stops", 1, [][]uint64{{1, 2}, {3}}, 2},
	}
	var r []*scenario
	for _, s := range list {
		r = append(r, &scenario{name: s.name, bounds: bounds, body: msgChannelScenario(s.capacity, s.adders, s.closers), steps: 5000})
	}
	return r
}
