// schedmc: exhaustive exploration of thread interleavings (iterative preemption bounding) of the
// real block downloader / block manager / tx manager / peer book code, instrumented by source
// rewriting (cmd/instr) and run under the cooperative scheduler in verif/vsched (engine B).
package main

import (
	"bytes"
	"encoding/json"
	"flag"
	"fmt"
	"os"
	"os/exec"
	"runtime"
	"runtime/pprof"
	"sort"
	"strings"
	"sync"
	"time"

	"verif/mc"
	"verif/vsched"
)

// scenario is one closed system to explore.
type scenario struct {
	name   string
	bounds []int // preemption bounds to complete, in order (iterated)
	body   func() func() []string
	steps  int
	note   string
}

var labels = map[string]int{}

// label records an outcome label of the current execution (single-threaded under the scheduler).
func label(l string) { labels[l]++ }

func main() {
	prop := flag.String("prop", "C16", "")
	tier := flag.String("tier", "quick", "")
	replay := flag.String("replay", "", "")
	only := flag.String("scenario", "", "run only the scenario with exactly this name (child mode)")
	budgetFlag := flag.Duration("budget", 0, "time budget")
	cpuprofile := flag.String("cpuprofile", "", "write a CPU profile (child mode)")
	racePass := flag.Int("race-pass", 0, "parent: run every scenario this many times free-running (binary built with -race)")
	raceRuns := flag.Int("race-runs", 0, "child of -race-pass")
	flag.Parse()
	if *replay != "" {
		os.Exit(doReplay(*prop, *replay))
	}
	if *cpuprofile != "" {
		f, _ := os.Create(*cpuprofile)
		pprof.StartCPUProfile(f)
		defer pprof.StopCPUProfile()
	}
	thorough := *tier == "thorough"
	start := time.Now()
	scs := scenariosFor(*prop, thorough)
	if scs == nil {
		fmt.Fprintln(os.Stderr, "unknown property", *prop)
		os.Exit(2)
	}
	budget := 3 * time.Minute
	if thorough {
		budget = 30 * time.Minute
	}
	if *budgetFlag > 0 {
		budget = *budgetFlag
	}
	if *racePass > 0 {
		os.Exit(raceParent(*prop, *tier, scs, *racePass))
	}
	if *raceRuns > 0 {
		for _, sc := range scs {
			if sc.name == *only {
				raceChild(sc, *raceRuns)
			}
		}
		return
	}
	if *only == "" {
		os.Exit(parent(*prop, *tier, scs, budget, start))
	}
	runtime.GOMAXPROCS(1) // one thread runs at a time anyway; hand-offs are much cheaper on one P
	deadline := time.Now().Add(budget)
	var vs []mc.Violation
	var per []map[string]any
	var samples []any
	totalExec, totalPoints := 0, 0
	exhaustive := true
	allOutcomes := map[string]int{}
	for _, sc := range scs {
		if sc.name != *only {
			continue
		}
		completed := -1
		var last *vsched.Explorer
		t0 := time.Now()
		scExec := 0
		var shared map[string]bool
		for _, b := range sc.bounds {
			labels = map[string]int{}
			e := &vsched.Explorer{Body: sc.body, Bound: b, MaxSteps: sc.steps, Deadline: deadline, UseShared: true, UseCache: true, Shared: shared}
			ok := e.Explore()
			shared = e.Shared
			last = e
			scExec += e.Executions
			totalExec += e.Executions
			totalPoints += e.Points
			for _, f := range e.Failures {
				vs = append(vs, mc.Violation{Prop: *prop, Clause: f.Kind, Fingerprint: f.Kind + "|" + sc.name + "|" + fingerprintOf(f.Message),
					Detail:  fmt.Sprintf("scenario %s, preemption bound %d (%d preemptions): %s", sc.name, b, f.Preempt, f.Message),
					History: map[string]any{"scenario": sc.name, "schedule": f.Schedule, "trace": f.Trace}})
			}
			if len(e.Failures) > 0 {
				break
			}
			if !ok {
				exhaustive = false
				break
			}
			completed = b
		}
		for k, v := range labels {
			allOutcomes[k] += v
		}
		var ls []string
		for k, v := range labels {
			ls = append(ls, fmt.Sprintf("%s=%d", k, v))
		}
		sort.Strings(ls)
		fmt.Fprintf(os.Stderr, "%s %-46s bound-completed=%d executions=%d points=%d..%d restarts=%d %.1fs %s\n", *prop, sc.name, completed, scExec,
			last.MinPoints, last.MaxPoints, last.Restarts, time.Since(t0).Seconds(), last.Capped)
		if len(ls) > 0 {
			fmt.Fprintf(os.Stderr, "    outcomes(last bound): %s\n", strings.Join(ls, " "))
		}
		per = append(per, map[string]any{"scenario": sc.name, "preemption_bound_completed": completed, "bounds_requested": sc.bounds, "executions": scExec,
			"decision_points_min": last.MinPoints, "decision_points_max": last.MaxPoints, "outcomes_last_bound": labels, "capped": last.Capped, "note": sc.note})
		if len(samples) < 10 {
			// one concrete schedule as a sample: the default (all-zero) execution's trace
			s := vsched.Run(func() { sc.body() }, vsched.Options{Trace: true, MaxSteps: sc.steps})
			tr := s.Trace
			if len(tr) > 60 {
				tr = tr[:60]
			}
			samples = append(samples, map[string]any{"scenario": sc.name, "default_schedule_trace": strings.Join(tr, " ")})
		}
	}
	// child mode: print the result as JSON for the parent
	out := childResult{Violations: vs, Per: per, Samples: samples, Executions: totalExec, Points: totalPoints, Exhaustive: exhaustive, Outcomes: allOutcomes}
	b, _ := json.Marshal(out)
	fmt.Println("RESULT " + string(b))
}

type childResult struct {
	Violations []mc.Violation   `json:"violations"`
	Per        []map[string]any `json:"per"`
	Samples    []any            `json:"samples"`
	Executions int              `json:"executions"`
	Points     int              `json:"points"`
	Exhaustive bool             `json:"exhaustive"`
	Outcomes   map[string]int   `json:"outcomes"`
}

// parent runs every scenario in its own process (the scheduler is a process-wide singleton), up to
// 16 at a time, and merges the results into the evidence file.
func parent(prop, tier string, scs []*scenario, budget time.Duration, start time.Time) int {
	exe, _ := os.Executable()
	type res struct {
		name string
		out  childResult
		err  string
		log  string
	}
	results := make([]res, len(scs))
	sem := make(chan struct{}, 16)
	var wg sync.WaitGroup
	deadline := start.Add(budget)
	for i, sc := range scs {
		wg.Add(1)
		go func(i int, sc *scenario) {
			defer wg.Done()
			sem <- struct{}{}
			defer func() { <-sem }()
			left := time.Until(deadline)
			if left < 5*time.Second {
				left = 5 * time.Second
			}
			cmd := exec.Command(exe, "-prop", prop, "-tier", tier, "-scenario", sc.name, "-budget", left.String())
			var stdout, stderr bytes.Buffer
			cmd.Stdout, cmd.Stderr = &stdout, &stderr
			err := cmd.Run()
			r := res{name: sc.name, log: stderr.String()}
			found := false
			for _, line := range strings.Split(stdout.String(), "\n") {
				if strings.HasPrefix(line, "RESULT ") {
					if json.Unmarshal([]byte(line[7:]), &r.out) == nil {
						found = true
					}
				}
			}
			if !found {
				r.err = fmt.Sprintf("scenario process failed: %v %s", err, lastLines(stderr.String()+stdout.String(), 6))
			}
			results[i] = r
		}(i, sc)
	}
	wg.Wait()
	var vs []mc.Violation
	var per []map[string]any
	var samples []any
	totalExec, totalPoints := 0, 0
	exhaustive := true
	outcomes := map[string]int{}
	harnessError := false
	for _, r := range results {
		fmt.Fprint(os.Stderr, r.log)
		if r.err != "" {
			fmt.Fprintln(os.Stderr, "HARNESS ERROR:", r.name, r.err)
			harnessError = true
			continue
		}
		vs = append(vs, r.out.Violations...)
		per = append(per, r.out.Per...)
		if len(samples) < 10 {
			samples = append(samples, r.out.Samples...)
		}
		totalExec += r.out.Executions
		totalPoints += r.out.Points
		exhaustive = exhaustive && r.out.Exhaustive
		for k, v := range r.out.Outcomes {
			outcomes[k] += v
		}
	}
	fmt.Fprintf(os.Stderr, "%s scenarios=%d executions=%d violations=%d exhaustive=%t %.1fs\n", prop, len(scs), totalExec, len(vs), exhaustive, time.Since(start).Seconds())
	allOutcomes := outcomes
	ev := &mc.Evidence{PropertyID: prop, Tier: tier, Level: "model_checking",
		Coverage: map[string]any{
			"states":                        totalPoints,
			"transitions":                   totalPoints,
			"traces_validated_against_impl": totalExec,
			"executions":                    totalExec,
			"states_note":                   "stateless exploration: 'states' and 'transitions' count the scheduling decision points visited over all executions; every execution is a complete run of the real (instrumented) code under the controlled scheduler",
			"exhaustive":                    exhaustive,
			"scenarios":                     per,
			"distinct_outcomes":             len(allOutcomes),
			"outcomes":                      allOutcomes,
			"samples":                       samples,
		},
		Assumptions: []string{
			"interleavings are explored at synchronisation operations (mutex, rwmutex, waitgroup, channel send/receive/close/select, goroutine start/exit); sequentially consistent; plain data races are outside (guarded by the separate free-running -race pass that the thorough tier appends: coverage.race_guard_pass)",
			"iterative preemption bounding: all schedules with at most the stated number of preemptions; switches at blocking operations, thread exits, harness yields and select-case choices are free",
			"virtual time: timers fire only when no thread can run (everything else is faster than any timer)",
			"operations on objects that only one thread ever touches are not decision points; the set of shared objects is iterated to a fix-point",
			"instrumentation by source rewriting of the root package, tokenized/threads and one file of tokenized/pkg/storage; /repo itself is untouched",
		},
		Wall: time.Since(start).Seconds()}
	rc := mc.Finish(ev, vs)
	if harnessError && rc == 0 {
		return 2
	}
	return rc
}

func lastLines(s string, n int) string {
	l := strings.Split(strings.TrimSpace(s), "\n")
	if len(l) > n {
		l = l[len(l)-n:]
	}
	return strings.Join(l, " | ")
}

func fingerprintOf(msg string) string {
	// structural class: failure kind + blocked sites without addresses
	m := msg
	if i := strings.Index(m, "\n"); i > 0 {
		m = m[:i]
	}
	var parts []string
	for _, seg := range strings.Split(m, ";") {
		seg = strings.TrimSpace(seg)
		if j := strings.Index(seg, " blocked in "); j > 0 {
			parts = append(parts, seg[j+len(" blocked in "):])
		}
	}
	if len(parts) == 0 {
		if len(m) > 80 {
			m = m[:80]
		}
		return strings.ReplaceAll(m, " ", "_")
	}
	sort.Strings(parts)
	return strings.ReplaceAll(strings.Join(parts, ","), " ", "_")
}

// doReplay re-executes the recorded schedule of a violation file five times (no search) and
// reports whether it still fails; the observations of the five runs must be identical.
func doReplay(prop, path string) int {
	b, err := os.ReadFile(path)
	if err != nil {
		fmt.Fprintln(os.Stderr, err)
		return 2
	}
	var v struct {
		Prop    string `json:"property"`
		History struct {
			Scenario string `json:"scenario"`
			Schedule []int  `json:"schedule"`
		} `json:"history"`
	}
	if err := json.Unmarshal(b, &v); err != nil {
		fmt.Fprintln(os.Stderr, err)
		return 2
	}
	if v.Prop != "" {
		prop = v.Prop
	}
	var sc *scenario
	for _, thorough := range []bool{false, true} {
		for _, c := range scenariosFor(prop, thorough) {
			if c.name == v.History.Scenario {
				sc = c
			}
		}
	}
	if sc == nil {
		fmt.Fprintln(os.Stderr, "scenario not found:", v.History.Scenario)
		return 2
	}
	runtime.GOMAXPROCS(1)
	failed := 0
	first := ""
	for i := 0; i < 5; i++ {
		var check func() []string
		labels = map[string]int{}
		s := vsched.Run(func() { check = sc.body() }, vsched.Options{Prefix: v.History.Schedule, MaxSteps: sc.steps, Trace: true})
		var problems []string
		if s.Failure != "" {
			problems = []string{s.FailKind + ": " + s.Failure}
		} else if check != nil {
			problems = check()
		}
		obs := fmt.Sprintf("%v | %v", problems, s.Trace)
		if i == 0 {
			first = obs
			fmt.Printf("scenario %s, schedule %v\ntrace: %s\nproblems: %v\n", sc.name, v.History.Schedule, strings.Join(s.Trace, " "), problems)
		} else if obs != first {
			fmt.Println("HARNESS ERROR: replay is not deterministic")
			return 2
		}
		if len(problems) > 0 {
			failed++
		}
	}
	fmt.Printf("replay failed %d/5 times\n", failed)
	if failed > 0 {
		fmt.Printf("VIOLATION property=%s replay=%s\n", prop, path)
		return 1
	}
	return 0
}
