package main

import (
	"bytes"
	"context"
	"fmt"
	"time"

	"verif/netsim"
	"verif/vsched"
	"verif/vstore"

	bitcoin_reader "github.com/tokenized/bitcoin_reader"
	"github.com/tokenized/bitcoin_reader/headers"
	"github.com/tokenized/pkg/bitcoin"
	"github.com/tokenized/pkg/wire"
)

// ---- C03, concurrent part: several connections are verified at the same time -------------------
//
// Two (or three) real BitcoinNodes of one process, each past its version / verack exchange (hook
// VerifCompleteHandshake), share one header repository; each connection's reader handles the one
// headers message its peer answers the verification request with. The repository's lock is a
// switch point (lockedHeaders mirrors the Lock / Unlock pair every repository method starts with;
// the repository itself runs natively). In every interleaving a peer is verified exactly when ITS
// OWN reply starts with the BSV split header, whatever the other connections received.

type lockedHeaders struct {
	*headers.Repository
	mu *vsched.Mutex
}

func (l lockedHeaders) VerifyHeader(ctx context.Context, h *wire.BlockHeader) error {
	l.mu.Lock()
	defer l.mu.Unlock()
	return l.Repository.VerifyHeader(ctx, h)
}

func (l lockedHeaders) ProcessHeader(ctx context.Context, h *wire.BlockHeader) error {
	l.mu.Lock()
	defer l.mu.Unlock()
	return l.Repository.ProcessHeader(ctx, h)
}

func (l lockedHeaders) Height() int {
	l.mu.Lock()
	defer l.mu.Unlock()
	return l.Repository.Height()
}

func (l lockedHeaders) LastHash() bitcoin.Hash32 {
	l.mu.Lock()
	defer l.mu.Unlock()
	return l.Repository.LastHash()
}

func (l lockedHeaders) HashHeight(hash bitcoin.Hash32) int {
	l.mu.Lock()
	defer l.mu.Unlock()
	return l.Repository.HashHeight(hash)
}

func (l lockedHeaders) Hash(ctx context.Context, height int) (*bitcoin.Hash32, error) {
	l.mu.Lock()
	defer l.mu.Unlock()
	return l.Repository.Hash(ctx, height)
}

func (l lockedHeaders) PreviousHash(hash bitcoin.Hash32) (*bitcoin.Hash32, int) {
	l.mu.Lock()
	defer l.mu.Unlock()
	return l.Repository.PreviousHash(hash)
}

func verifyTogetherScenario(replies []string) func() func() []string {
	return func() func() []string {
		store := vstore.New()
		repo := headers.NewRepository(headers.DefaultConfig(), store)
		repo.InitializeWithGenesis()
		shared := lockedHeaders{Repository: repo, mu: &vsched.Mutex{}}
		peers := bitcoin_reader.NewPeerRepository(store, "")
		cfg := bitcoin_reader.DefaultConfig()
		var nodes []*bitcoin_reader.BitcoinNode
		errs := make([]error, len(replies))
		for i, l := range replies {
			i, l := i, l
			node := bitcoin_reader.NewBitcoinNode(fmt.Sprintf("127.0.0.%d:8333", i+1), "/verif/", cfg, shared, peers)
			node.VerifOpenOutgoing()
			node.VerifSetInterrupt(make(chan interface{}))
			if err := node.VerifCompleteHandshake(bg); err != nil {
				panic(err)
			}
			nodes = append(nodes, node)
			conn := &byteConn{r: bytes.NewReader(netsim.Letters[l])}
			vsched.GoNamed(fmt.Sprintf("reader-%d", i), func() {
				errs[i] = node.VerifHandleMessage(bg, conn)
			})
		}
		return func() []string {
			var problems []string
			out := ""
			for i, l := range replies {
				want := l == "headers[bsv-split]" || l == "headers[bsv-split,unknown]"
				got := nodes[i].Verified()
				out += fmt.Sprintf("%s:%t ", l, got)
				if got != want {
					problems = append(problems, fmt.Sprintf("verified-by-another-connection: the peer whose verification reply was %s is verified=%t (ready=%t), want %t; the other connections received %v at the same time", l, got, nodes[i].IsReady(), want, replies))
				}
			}
			label(out)
			return problems
		}
	}
}

// verifyWhileBusyScenario: the repository is busy (its lock is held for `hold`, as during a Save or
// Clean on slow storage) when a connection's verification reply is handled. However long the
// handler has to wait, the peer is verified exactly when the reply starts with the BSV split header.
func verifyWhileBusyScenario(reply string, hold time.Duration) func() func() []string {
	return func() func() []string {
		store := vstore.New()
		repo := headers.NewRepository(headers.DefaultConfig(), store)
		repo.InitializeWithGenesis()
		shared := lockedHeaders{Repository: repo, mu: &vsched.Mutex{}}
		peers := bitcoin_reader.NewPeerRepository(store, "")
		cfg := bitcoin_reader.DefaultConfig()
		node := bitcoin_reader.NewBitcoinNode("127.0.0.1:8333", "/verif/", cfg, shared, peers)
		node.VerifOpenOutgoing()
		node.VerifSetInterrupt(make(chan interface{}))
		if err := node.VerifCompleteHandshake(bg); err != nil {
			panic(err)
		}
		vsched.GoNamed("maintenance", func() {
			shared.mu.Lock()
			vsched.Sleep(hold)
			shared.mu.Unlock()
		})
		conn := &byteConn{r: bytes.NewReader(netsim.Letters[reply])}
		vsched.GoNamed("reader", func() {
			node.VerifHandleMessage(bg, conn)
		})
		return func() []string {
			var problems []string
			want := reply == "headers[bsv-split]" || reply == "headers[bsv-split,unknown]"
			if got := node.Verified(); got != want {
				problems = append(problems, fmt.Sprintf("verified-while-repository-busy: the peer whose verification reply was %s is verified=%t (ready=%t), want %t; the repository was busy for %s while the reply was handled", reply, got, node.IsReady(), want, hold))
			}
			label(fmt.Sprintf("%s busy=%s verified=%t", reply, hold, node.Verified()))
			return problems
		}
	}
}

func c03Scenarios(thorough bool) []*scenario {
	var r []*scenario
	foreign := []string{"headers[bch-split]", "headers[unknown]", "headers[block1]", "headers[]"}
	bounds := []int{0, 1, 2}
	for _, f := range foreign {
		for _, order := range [][]string{{f, "headers[bsv-split]"}, {"headers[bsv-split]", f}} {
			r = append(r, &scenario{name: "verify-together/" + order[0] + "+" + order[1], bounds: bounds, body: verifyTogetherScenario(order), steps: 20000})
		}
	}
	r = append(r, &scenario{name: "verify-together/bch+bsv+unknown", bounds: []int{0, 1}, body: verifyTogetherScenario([]string{"headers[bch-split]", "headers[bsv-split]", "headers[unknown]"}), steps: 30000})
	for _, reply := range []string{"headers[bch-split]", "headers[unknown]", "headers[block1]", "headers[bsv-split]"} {
		for _, hold := range []time.Duration{time.Second, 5 * time.Second, 90 * time.Second} {
			r = append(r, &scenario{name: fmt.Sprintf("verify-while-busy/%s/%s", reply, hold), bounds: []int{0, 1}, body: verifyWhileBusyScenario(reply, hold), steps: 20000})
		}
	}
	r = append(r, &scenario{name: "verify-together/bsv+bsv", bounds: bounds, body: verifyTogetherScenario([]string{"headers[bsv-split]", "headers[bsv-split]"}), steps: 20000})
	return r
}
