package main

// Free-running -race pass (guard for the assumption that scheduling at synchronisation operations
// is sufficient): the same scenario bodies, the same instrumented code, but no exploration is
// active, so every operation falls through to the real primitive and the goroutines really run in
// parallel under the race detector. It is sampling and decides no property: reports whose two
// accesses are both in repository (or library) code are recorded in the evidence and printed as
// notes; reports involving harness code are the harness's own plain shared variables (they are only
// ever touched by one thread at a time under the cooperative scheduler) and are ignored.

import (
	"bytes"
	"encoding/json"
	"fmt"
	"os"
	"os/exec"
	"path/filepath"
	"regexp"
	"sort"
	"strings"
	"sync"
	"time"

	"verif/mc"
	"verif/vsched"
)

// raceChild runs one scenario body n times free-running.
func raceChild(sc *scenario, n int) {
	vsched.NativeTimeScale = 200
	done := 0
	for i := 0; i < n; i++ {
		func() {
			defer func() { recover() }()
			sc.body()
		}()
		if vsched.NativeIdle(8 * time.Second) {
			done++
		} else {
			break // goroutines of this run are still alive (waiting for ever natively): stop here
		}
	}
	fmt.Printf("RACERUNS %d\n", done)
}

type raceReport struct {
	First  string `json:"first_access"`
	Second string `json:"second_access"`
	Kind   string `json:"kind"`       // repository | harness
	Map    bool   `json:"map_access"` // one of the accesses is a Go map operation (fatal when concurrent)
	Text   string `json:"-"`
}

var frameFile = regexp.MustCompile(`^\s+(/\S+\.go):(\d+)`)

// topUserFrame returns "function file:line" of the first frame of a stack section that is not in
// the Go runtime / standard library or the scheduler package.
func topUserFrame(section []string) string {
	for i := 0; i+1 < len(section); i++ {
		m := frameFile.FindStringSubmatch(section[i+1])
		if m == nil {
			continue
		}
		file := m[1]
		if strings.Contains(file, "/vsched/") || strings.Contains(file, "/go/src/") || strings.Contains(file, "/libexec/src/") ||
			strings.Contains(file, "veriftools/go") || strings.HasPrefix(file, "/usr/lib/go") || strings.HasPrefix(file, "/usr/local/go") {
			continue
		}
		return strings.TrimSpace(section[i]) + " " + file + ":" + m[2]
	}
	return "?"
}

func parseRaceLog(text string) []raceReport {
	var out []raceReport
	for _, block := range strings.Split(text, "==================") {
		if !strings.Contains(block, "WARNING: DATA RACE") {
			continue
		}
		var sections [][]string
		var cur []string
		for _, l := range strings.Split(block, "\n") {
			if strings.Contains(l, "WARNING: DATA RACE") {
				continue
			}
			if strings.TrimSpace(l) == "" {
				if len(cur) > 0 {
					sections = append(sections, cur)
					cur = nil
				}
				continue
			}
			cur = append(cur, l)
		}
		if len(cur) > 0 {
			sections = append(sections, cur)
		}
		var acc [][]string
		for _, s := range sections {
			h := s[0]
			if strings.Contains(h, " by goroutine ") || strings.Contains(h, " by main goroutine") {
				acc = append(acc, s)
			}
		}
		if len(acc) < 2 {
			continue
		}
		r := raceReport{First: topUserFrame(acc[0][1:]), Second: topUserFrame(acc[1][1:]), Text: strings.TrimSpace(block)}
		for _, a := range acc[:2] {
			if len(a) > 1 && strings.Contains(a[1], "runtime.map") {
				r.Map = true
			}
		}
		harness := func(f string) bool { return strings.Contains(f, "/cmd/schedmc/") || f == "?" }
		if harness(r.First) || harness(r.Second) {
			r.Kind = "harness"
		} else {
			r.Kind = "repository"
		}
		out = append(out, r)
	}
	return out
}

// raceParent runs every scenario of the property free-running under the race detector (the binary
// must have been built with -race) and merges what it saw into the evidence file.
func raceParent(prop, tier string, scs []*scenario, runs int) int {
	exe, _ := os.Executable()
	dir, _ := os.MkdirTemp(filepath.Dir(exe), "race-")
	defer os.RemoveAll(dir)
	type res struct {
		name    string
		runs    int
		reports []raceReport
		err     string
	}
	results := make([]res, len(scs))
	sem := make(chan struct{}, 8)
	var wg sync.WaitGroup
	start := time.Now()
	for i, sc := range scs {
		wg.Add(1)
		go func(i int, sc *scenario) {
			defer wg.Done()
			sem <- struct{}{}
			defer func() { <-sem }()
			logPath := filepath.Join(dir, fmt.Sprintf("r%d", i))
			cmd := exec.Command(exe, "-prop", prop, "-tier", tier, "-scenario", sc.name, "-race-runs", fmt.Sprint(runs))
			cmd.Env = append(os.Environ(), "GORACE=halt_on_error=0 log_path="+logPath)
			var stdout bytes.Buffer
			cmd.Stdout = &stdout
			done := make(chan error, 1)
			cmd.Start()
			go func() { done <- cmd.Wait() }()
			select {
			case <-done:
			case <-time.After(90 * time.Second):
				cmd.Process.Kill()
				<-done
			}
			r := res{name: sc.name}
			for _, l := range strings.Split(stdout.String(), "\n") {
				fmt.Sscanf(l, "RACERUNS %d", &r.runs)
			}
			logs, _ := filepath.Glob(logPath + ".*")
			for _, f := range logs {
				b, _ := os.ReadFile(f)
				r.reports = append(r.reports, parseRaceLog(string(b))...)
			}
			results[i] = r
		}(i, sc)
	}
	wg.Wait()
	totalRuns, harness := 0, 0
	repo := map[string]int{}
	var fatal []mc.Violation
	for _, r := range results {
		totalRuns += r.runs
		for _, rep := range r.reports {
			if rep.Kind == "harness" {
				harness++
				continue
			}
			a, b := rep.First, rep.Second
			if b < a {
				a, b = b, a
			}
			repo[a+"  <->  "+b]++
			if prop == "C20" && strings.Contains(a, "/peers.go:") && strings.Contains(b, "/peers.go:") {
				// an unsynchronised access pair inside the peer book itself: the exploration under
				// the scheduler assumes the book's state is only touched under its lock (it switches
				// at synchronisation operations), and a lost update on a score or a torn list is
				// exactly what the property excludes - the race detector's report is conclusive
				fatal = append(fatal, mc.Violation{Prop: prop, Clause: "unsynchronised-peer-book-access", Fingerprint: "unsynchronised-peer-book-access|" + a + "|" + b,
					Detail:  fmt.Sprintf("scenario %s, free-running under the race detector: two goroutines access the peer book's state without synchronisation (%s <-> %s): concurrent callers can lose an update", r.name, a, b),
					History: map[string]any{"scenario": r.name, "race_report": rep.Text}})
			}
			if rep.Map {
				// the one kind of race that is a verdict by itself: concurrent access to a Go map is a
				// fatal runtime error ("concurrent map read and map write"), the process dies
				site := func(f string) string {
					if i := strings.LastIndex(f, "/"); i >= 0 {
						f = f[i+1:]
					}
					if i := strings.LastIndex(f, ":"); i >= 0 {
						f = f[:i]
					}
					return f
				}
				fatal = append(fatal, mc.Violation{Prop: prop, Clause: "concurrent-map-access", Fingerprint: "concurrent-map-access|" + site(a) + "|" + site(b),
					Detail:  fmt.Sprintf("scenario %s, free-running under the race detector: unsynchronised access to a map from two goroutines (%s <-> %s); concurrent map access aborts the process", r.name, a, b),
					History: map[string]any{"scenario": r.name, "race_report": rep.Text}})
			}
		}
	}
	var keys []string
	for k := range repo {
		keys = append(keys, k)
	}
	sort.Strings(keys)
	fmt.Fprintf(os.Stderr, "%s race pass: %d scenarios, %d free-running executions, %d distinct unsynchronised access pairs in repository code, %d reports in harness-only code ignored, %.1fs\n",
		prop, len(scs), totalRuns, len(keys), harness, time.Since(start).Seconds())
	var list []map[string]any
	for _, k := range keys {
		fmt.Fprintf(os.Stderr, "NOTE race (assumption guard, decides nothing): %s  [%d reports]\n", k, repo[k])
		list = append(list, map[string]any{"accesses": k, "reports": repo[k]})
	}
	rc := 0
	if mc.Report(fatal) > 0 {
		rc = 1
	}
	// merge into the evidence file written by the exploration
	path := filepath.Join(mc.OutRoot(), "evidence", prop+".json")
	b, err := os.ReadFile(path)
	if err != nil {
		return rc
	}
	var ev map[string]any
	if json.Unmarshal(b, &ev) != nil {
		return rc
	}
	cov, _ := ev["coverage"].(map[string]any)
	if cov == nil {
		return rc
	}
	cov["race_guard_pass"] = map[string]any{
		"what":                         "the same scenario bodies and instrumented code run free (no scheduler, real primitives, timers 200x faster) under the Go race detector; sampling, decides nothing",
		"scenarios":                    len(scs),
		"free_running_executions":      totalRuns,
		"repository_code_access_pairs": list,
		"harness_only_reports_ignored": harness,
		"concurrent_map_accesses":      len(fatal),
	}
	if rc != 0 {
		if n, ok := ev["violations"].(float64); ok {
			ev["violations"] = int(n) + len(fatal)
		}
	}
	out, _ := json.MarshalIndent(ev, "", " ")
	os.WriteFile(path, out, 0o644)
	return rc
}
