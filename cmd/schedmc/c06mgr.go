package main

import (
	"fmt"
	"time"

	"verif/vsched"
	"verif/vstore"

	bitcoin_reader "github.com/tokenized/bitcoin_reader"
	"github.com/tokenized/bitcoin_reader/headers"
	"github.com/tokenized/pkg/bitcoin"
	"github.com/tokenized/pkg/wire"
)

// C06, node manager part: the retry poll of the real NodeManager (RequestTxs) over three real
// BitcoinNodes that are ready (hook VerifAccept), with the real TxManager. Two transactions, each
// announced by a non-empty subset of the nodes (the first announcer - rotated - is the one asked at
// announcement time); a subset of the nodes is STOPPING: Stop was called, its outgoing queue is
// closed, but its run loop has not yet marked it not-ready (the state between BitcoinNode.Stop and
// the clean-up in run). Then three request windows (the clock passes the request timeout) of three
// polls each. Whatever lands in a node's outgoing queue is examined:
//   - a transaction is only ever requested from a node that announced it, and never twice from the
//     same node;
//   - inside one window a transaction is requested at most once;
//   - polls made while the first request is still outstanding request nothing;
//   - with no node stopping, every window asks one further announcer of every transaction that
//     still has one.
func mgrPollScenario(stopMask int) func() func() []string {
	return func() func() []string {
		var problems []string
		combos, requests := 0, 0
		for rot := 0; rot < 3; rot++ {
			for s0 := 1; s0 < 8; s0++ {
				for s1 := 1; s1 < 8; s1++ {
					combos++
					p, n := mgrPollCombo(stopMask, rot, []int{s0, s1})
					requests += n
					if len(p) > 0 && len(problems) == 0 {
						problems = p
					}
				}
			}
		}
		return func() []string {
			label(fmt.Sprintf("stopping=%03b combos=%d requests=%d ok=%t", stopMask, combos, requests, len(problems) == 0))
			return problems
		}
	}
}

func mgrPollCombo(stopMask, rot int, sets []int) (problems []string, requests int) {
	store := vstore.New()
	repo := headers.NewRepository(headers.DefaultConfig(), store)
	repo.InitializeWithGenesis()
	cfg := bitcoin_reader.DefaultConfig()
	peers := bitcoin_reader.NewPeerRepository(store, "")
	nm := bitcoin_reader.NewNodeManager("/verif/", cfg, repo, peers)
	txm := bitcoin_reader.NewTxManager(txTimeout)
	txm.SetTxProcessor(&recProc{})
	nm.SetTxManager(txm)
	var nodes []*bitcoin_reader.BitcoinNode
	for i := 0; i < 3; i++ {
		node := bitcoin_reader.NewBitcoinNode(fmt.Sprintf("127.0.0.%d:8333", i+1), "/verif/", cfg, repo, peers)
		node.SetTxManager(txm)
		node.VerifOpenOutgoing()
		node.VerifSetInterrupt(make(chan interface{}))
		if err := node.VerifAccept(bg); err != nil {
			panic(err)
		}
		node.VerifTakeOutgoing() // the first requests queued by accept
		nm.VerifAddNode(node)
		nodes = append(nodes, node)
	}
	txs := []*wire.MsgTx{mkTx(4000), mkTx(4001)}
	announced := [2][3]bool{}
	asked := [2][3]bool{}
	for t, set := range sets {
		first := true
		for k := 0; k < 3; k++ {
			i := k
			if t == 0 {
				i = (k + rot) % 3
			}
			if set&(1<<uint(i)) == 0 {
				continue
			}
			ok, _ := txm.AddTxID(bg, nodes[i].ID(), *txs[t].TxHash())
			announced[t][i] = true
			if ok != first {
				problems = append(problems, fmt.Sprintf("announce: announcer %d of transaction %d was answered request=%t", i, t, ok))
			}
			if ok {
				asked[t][i] = true
			}
			first = false
		}
	}
	for i := 0; i < 3; i++ {
		if stopMask&(1<<uint(i)) != 0 {
			nodes[i].Stop(bg)
		}
	}
	describe := fmt.Sprintf("[stopping nodes %03b, first-announcer rotation %d, announcer sets tx0=%03b tx1=%03b]", stopMask, rot, sets[0], sets[1])
	// the retry timer also ticks while the first request is still outstanding: three polls inside
	// the request window must request nothing (and must leave the waiting announcers as they are)
	for poll := 0; poll < 3; poll++ {
		if err := nm.RequestTxs(bg); err != nil {
			problems = append(problems, "poll: RequestTxs returned "+err.Error()+" "+describe)
		}
		for i, node := range nodes {
			for _, msg := range node.VerifTakeOutgoing() {
				if gd, ok := msg.(*wire.MsgGetData); ok && len(gd.InvList) > 0 {
					problems = append(problems, fmt.Sprintf("mgr-poll: %d transactions were requested from node %d while the first request was still outstanding %s", len(gd.InvList), i, describe))
				}
			}
		}
	}
	for window := 1; window <= 3; window++ {
		vsched.Advance(txTimeout + time.Second)
		inWindow := [2]int{}
		for poll := 0; poll < 3; poll++ {
			if err := nm.RequestTxs(bg); err != nil {
				problems = append(problems, "poll: RequestTxs returned "+err.Error()+" "+describe)
			}
			for i, node := range nodes {
				for _, msg := range node.VerifTakeOutgoing() {
					gd, ok := msg.(*wire.MsgGetData)
					if !ok {
						continue
					}
					for _, item := range gd.InvList {
						t := -1
						for k, tx := range txs {
							if item.Hash == bitcoin.Hash32(*tx.TxHash()) {
								t = k
							}
						}
						if t < 0 {
							problems = append(problems, "poll: a transaction nobody announced was requested "+describe)
							continue
						}
						requests++
						inWindow[t]++
						switch {
						case !announced[t][i]:
							problems = append(problems, fmt.Sprintf("mgr-poll: transaction %d was requested from node %d, which never announced it (window %d poll %d) %s", t, i, window, poll+1, describe))
						case asked[t][i]:
							problems = append(problems, fmt.Sprintf("mgr-poll: transaction %d was requested from node %d a second time (window %d) %s", t, i, window, describe))
						}
						asked[t][i] = true
					}
				}
			}
		}
		for t := range txs {
			if inWindow[t] > 1 {
				problems = append(problems, fmt.Sprintf("mgr-poll: transaction %d was requested %d times inside one request window (window %d) %s", t, inWindow[t], window, describe))
			}
			if stopMask == 0 && inWindow[t] == 0 {
				for i := 0; i < 3; i++ {
					if announced[t][i] && !asked[t][i] {
						problems = append(problems, fmt.Sprintf("mgr-poll: transaction %d has an announcer that was never asked (node %d) but the three polls of request window %d requested it from nobody %s", t, i, window, describe))
						break
					}
				}
			}
		}
	}
	return problems, requests
}

// mgrFewNodesScenario: the same retry poll with only one or two nodes left in the manager (the
// first announcer is a node that is gone: it was asked, never delivered, and is no longer
// registered). Every remaining node announced the transaction inside the first window; after the
// timeout each window's poll must ask one of them, until all have been asked.
func mgrFewNodesScenario(nNodes int) func() func() []string {
	return func() func() []string {
		store := vstore.New()
		repo := headers.NewRepository(headers.DefaultConfig(), store)
		repo.InitializeWithGenesis()
		cfg := bitcoin_reader.DefaultConfig()
		peers := bitcoin_reader.NewPeerRepository(store, "")
		nm := bitcoin_reader.NewNodeManager("/verif/", cfg, repo, peers)
		txm := bitcoin_reader.NewTxManager(txTimeout)
		txm.SetTxProcessor(&recProc{})
		nm.SetTxManager(txm)
		gone := bitcoin_reader.NewBitcoinNode("127.0.0.9:8333", "/verif/", cfg, repo, peers)
		var nodes []*bitcoin_reader.BitcoinNode
		for i := 0; i < nNodes; i++ {
			node := bitcoin_reader.NewBitcoinNode(fmt.Sprintf("127.0.0.%d:8333", i+1), "/verif/", cfg, repo, peers)
			node.SetTxManager(txm)
			node.VerifOpenOutgoing()
			node.VerifSetInterrupt(make(chan interface{}))
			if err := node.VerifAccept(bg); err != nil {
				panic(err)
			}
			node.VerifTakeOutgoing()
			nm.VerifAddNode(node)
			nodes = append(nodes, node)
		}
		tx := mkTx(4100)
		var problems []string
		if ok, _ := txm.AddTxID(bg, gone.ID(), *tx.TxHash()); !ok {
			problems = append(problems, "announce: the first announcer was not told to request")
		}
		for _, n := range nodes {
			if ok, _ := txm.AddTxID(bg, n.ID(), *tx.TxHash()); ok {
				problems = append(problems, "announce: a later announcer inside the request window was told to request")
			}
		}
		asked := make([]int, nNodes)
		for window := 1; window <= nNodes; window++ {
			vsched.Advance(txTimeout + time.Second)
			got := 0
			for poll := 0; poll < 2; poll++ {
				if err := nm.RequestTxs(bg); err != nil {
					problems = append(problems, "poll: RequestTxs returned "+err.Error())
				}
				for i, node := range nodes {
					for _, msg := range node.VerifTakeOutgoing() {
						if gd, ok := msg.(*wire.MsgGetData); ok {
							for _, item := range gd.InvList {
								if item.Hash == bitcoin.Hash32(*tx.TxHash()) {
									asked[i]++
									got++
								}
							}
						}
					}
				}
			}
			if got != 1 {
				problems = append(problems, fmt.Sprintf("mgr-poll-few-nodes: with %d node(s) left in the manager, the polls of request window %d asked %d of them for the undelivered transaction, want exactly 1 (asked so far per node: %v)", nNodes, window, got, asked))
			}
		}
		return func() []string {
			label(fmt.Sprintf("nodes=%d asked=%v ok=%t", nNodes, asked, len(problems) == 0))
			return problems
		}
	}
}
