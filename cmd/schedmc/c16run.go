package main

import (
	"fmt"
	"io"
	"net"
	"time"

	"verif/netsim"
	"verif/vsched"
	"verif/vstore"

	bitcoin_reader "github.com/tokenized/bitcoin_reader"
	"github.com/tokenized/bitcoin_reader/headers"
)

// ---- layer 2b: the real BitcoinNode.run ---------------------------------------------------------
//
// The whole connection loop of a node (hook VerifRun = mockConnect + run: reader, sender, ping and
// handshake threads, the wait for the first of them to end, the stop sequence with the block
// request's "on stop" call) runs under the scheduler over a scripted connection: the peer performs
// the handshake and the chain verification, then a block is requested from it through a real
// BlockDownloader, and then - in every order and interleaving within the bound - the manager
// cancels the download and the peer drops the connection. Run of the downloader and run of the
// node must both return.

// scriptConn is a connection whose incoming bytes are handed over through a scheduler-visible
// channel: a Read with nothing buffered waits (visibly) for the peer; closing the channel is the
// peer dropping the connection.
type scriptConn struct {
	in     chan []byte
	buf    []byte
	closed bool
}

func (c *scriptConn) Read(b []byte) (int, error) {
	for len(c.buf) == 0 {
		if c.closed {
			return 0, io.EOF
		}
		chunk, ok := vsched.Recv2(c.in)
		if !ok {
			c.closed = true
			return 0, io.EOF
		}
		c.buf = chunk
	}
	n := copy(b, c.buf)
	c.buf = c.buf[n:]
	return n, nil
}
func (c *scriptConn) Write(b []byte) (int, error)        { return len(b), nil }
func (c *scriptConn) Close() error                       { return nil }
func (c *scriptConn) LocalAddr() net.Addr                { return nil }
func (c *scriptConn) RemoteAddr() net.Addr               { return nil }
func (c *scriptConn) SetDeadline(t time.Time) error      { return nil }
func (c *scriptConn) SetReadDeadline(t time.Time) error  { return nil }
func (c *scriptConn) SetWriteDeadline(t time.Time) error { return nil }

func realRunScenario(cancel, drop bool) func() func() []string {
	return func() func() []string {
		store := vstore.New()
		repo := headers.NewRepository(headers.DefaultConfig(), store)
		repo.InitializeWithGenesis()
		peers := bitcoin_reader.NewPeerRepository(store, "")
		cfg := bitcoin_reader.DefaultConfig()
		node := bitcoin_reader.NewBitcoinNode("127.0.0.1:8333", "/verif/", cfg, repo, peers)
		conn := &scriptConn{in: make(chan []byte, 8)}
		vsched.Quiet(true) // handshake and verification: one fixed schedule; exploration starts at the block request
		nodeInterrupt := make(chan interface{})
		nodeReturned := false
		vsched.GoNamed("node-run", func() {
			node.VerifRun(bg, conn, nodeInterrupt)
			nodeReturned = true
		})
		for _, l := range []string{"version", "verack", "headers[bsv-split]"} {
			vsched.Send(conn.in, netsim.Letters[l])
		}
		blk := mkBlock(1, 1)
		proc := &recProc{}
		rstore := &recStore{}
		bd := bitcoin_reader.NewBlockDownloader(proc, rstore, blk.hash, 100)
		runReturned, requested := false, false
		var runErr error
		var runTook time.Duration
		vsched.GoNamed("driver", func() {
			for i := 0; i < 200 && !node.IsReady(); i++ {
				vsched.Sleep(10 * time.Millisecond)
			}
			if !node.IsReady() {
				return
			}
			if err := node.RequestBlock(bg, blk.hash, bd.HandleBlock, bd.Stop); err != nil {
				return
			}
			requested = true
			bd.SetCanceller(node.ID(), node)
			vsched.Quiet(false)
			interrupt := make(chan interface{})
			vsched.GoNamed("run", func() {
				t0 := vsched.Now()
				runErr = bd.Run(bg, interrupt)
				runTook = vsched.Since(t0)
				runReturned = true
			})
			if cancel {
				vsched.GoNamed("cancel", func() { bd.Cancel(bg) })
			}
			if drop {
				vsched.GoNamed("drop", func() { vsched.Close(conn.in) })
			} else {
				// the connection ends anyway a minute later, so that the node's run is over too
				vsched.GoNamed("drop-later", func() { vsched.Sleep(time.Minute); vsched.Close(conn.in) })
			}
		})
		return func() []string {
			var problems []string
			if !requested {
				// schedules in which the handshake timer wins or the connection ends first: the node
				// never becomes ready and nothing is requested - only its run has to end
				if !nodeReturned && drop {
					problems = append(problems, "node-run-not-returned: the node's run did not return after the connection ended")
				}
				label("nothing-requested")
				return problems
			}
			if !runReturned {
				problems = append(problems, "run-not-returned: BlockDownloader.Run did not return")
			}
			if !nodeReturned {
				problems = append(problems, "node-run-not-returned: the node's run did not return after the connection ended")
			}
			if runReturned && runTook >= 10*time.Minute {
				problems = append(problems, "run-stalled: Run returned "+errClass(runErr)+" only "+tookClass(runTook)+" (a completion signal was lost)")
			}
			label(fmt.Sprintf("run:%s/%s", errClass(runErr), tookClass(runTook)))
			return problems
		}
	}
}

func realRunScenarios(thorough bool) []*scenario {
	var r []*scenario
	bounds := []int{0, 1}
	for _, c := range []struct{ cancel, drop bool }{{true, true}, {false, true}, {true, false}} {
		name := "node-run/requested"
		if c.cancel {
			name += "+cancel"
		}
		if c.drop {
			name += "+peer-drops"
		}
		r = append(r, &scenario{name: name, bounds: bounds, body: realRunScenario(c.cancel, c.drop), steps: 50000})
	}
	return r
}
