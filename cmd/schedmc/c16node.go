package main

import (
	"bytes"
	"fmt"
	"time"

	"verif/vsched"
	"verif/vstore"

	bitcoin_reader "github.com/tokenized/bitcoin_reader"
	"github.com/tokenized/bitcoin_reader/headers"
	"github.com/tokenized/pkg/bitcoin"
	"github.com/tokenized/pkg/merkle_proof"
	"github.com/tokenized/pkg/wire"
)

// ---- layer 2: the real BitcoinNode block-request functions ------------------------------------
//
// RequestBlock / CancelBlockRequest / handleBlock / completeBlock and the "on stop" call at the end
// of run are the real (instrumented) code; only the bytes of the incoming block message are
// scripted. This is what the node-contract actor of layer 1 stands for.

type nodeConfig struct {
	deliver   string // none | ok1 | ok2 | wrong | truncated
	cancel    bool
	stop      bool
	interrupt bool // downloader interrupt (shutdown)
}

func (c nodeConfig) name() string {
	s := "node/deliver-" + c.deliver
	if c.cancel {
		s += "+cancel"
	}
	if c.stop {
		s += "+stop"
	}
	if c.interrupt {
		s += "+interrupt"
	}
	return s
}

func blockBytes(b *testBlock) []byte {
	buf := &bytes.Buffer{}
	b.header.Serialize(buf)
	wire.WriteVarInt(buf, 0, uint64(len(b.txs)))
	for _, tx := range b.txs {
		tx.Serialize(buf)
	}
	return buf.Bytes()
}

func nodeScenario(c nodeConfig) func() func() []string {
	return func() func() []string {
		blk := mkBlock(1, 2)
		if c.deliver == "ok1" {
			blk = mkBlock(1, 1)
		}
		if c.deliver == "big-ok" || c.deliver == "big-processor-error" {
			// more transactions than the hand-over channel between the node and the downloader
			// holds (1000): whoever stops reading early must keep the sender going
			blk = mkBigBlock(1, 1100)
		}
		other := mkBlock(2, 1)
		if c.deliver == "big-wrong" {
			blk = mkBlock(1, 1)
			other = mkBigBlock(2, 1100) // the peer answers with another, large, block
		}
		store := vstore.New()
		repo := headers.NewRepository(headers.DefaultConfig(), store)
		repo.InitializeWithGenesis()
		peers := bitcoin_reader.NewPeerRepository(store, "")
		cfg := bitcoin_reader.DefaultConfig()
		node := bitcoin_reader.NewBitcoinNode("127.0.0.1:8333", "/verif/", cfg, repo, peers)
		node.VerifOpenOutgoing()
		nodeInterrupt := make(chan interface{})
		node.VerifSetInterrupt(nodeInterrupt)

		proc := &recProc{failTx: c.deliver == "big-processor-error"}
		rstore := &recStore{}
		bd := bitcoin_reader.NewBlockDownloader(proc, rstore, blk.hash, 100)
		if err := node.RequestBlock(bg, blk.hash, bd.HandleBlock, bd.Stop); err != nil {
			panic(err)
		}
		bd.SetCanceller(node.ID(), node)
		interrupt := make(chan interface{})
		var runErr error
		var runTook time.Duration
		runReturned := false
		vsched.GoNamed("run", func() {
			t0 := vsched.Now()
			runErr = bd.Run(bg, interrupt)
			runTook = vsched.Since(t0)
			runReturned = true
		})
		peerReturned := c.deliver == "none"
		if c.deliver != "none" {
			vsched.GoNamed("peer", func() {
				payload := blockBytes(blk)
				switch c.deliver {
				case "wrong", "big-wrong":
					payload = blockBytes(other)
				case "truncated":
					payload = payload[:len(payload)-10]
				}
				h := &wire.MessageHeader{Length: uint64(len(payload))}
				copy(h.Command[:], wire.CmdBlock)
				if c.deliver == "truncated" {
					// the connection breaks inside the block: the reader returns EOF early, which is
					// what a closed connection looks like to the handler
					h.Length = uint64(len(payload) + 10)
				}
				node.VerifHandleBlock(bg, h, bytes.NewReader(payload))
				peerReturned = true
			})
		}
		if c.cancel {
			vsched.GoNamed("cancel", func() { bd.Cancel(bg) })
		}
		if c.stop {
			vsched.GoNamed("stop", func() { node.VerifStopBlock(bg) })
		}
		if c.interrupt {
			vsched.GoNamed("interrupt", func() { vsched.Close(interrupt) })
		}
		return func() []string {
			var problems []string
			if !runReturned {
				problems = append(problems, "run-not-returned: BlockDownloader.Run did not return")
			}
			if !peerReturned {
				problems = append(problems, "handler-not-returned: the node's block handler did not return")
			}
			if runErr == nil && len(rstore.order) != 1 {
				problems = append(problems, fmt.Sprintf("complete-without-processing: Run returned nil but the block was recorded %d times", len(rstore.order)))
			}
			if len(rstore.order) > 1 || len(proc.coinbase) > 1 {
				problems = append(problems, "processed-twice: the block was processed more than once")
			}
			out := "run:" + errClass(runErr)
			out += "/" + tookClass(runTook)
			if runTook >= 10*time.Minute {
				// every stream of this harness ends, so nothing justifies waiting for the cancel-wait or
				// download fallback timers: a signal was lost
				problems = append(problems, "run-stalled: Run returned "+errClass(runErr)+" only "+tookClass(runTook)+" (a completion signal was lost)")
			}
			if node.IsBusy() {
				out += "/node-still-busy"
			}
			label(out)
			return problems
		}
	}
}

func nodeScenarios(thorough bool) []*scenario {
	var r []*scenario
	delivers := []string{"none", "ok1", "wrong", "truncated"}
	if thorough {
		delivers = append(delivers, "ok2")
	}
	// blocks larger than the hand-over channel (sequential default schedule and one preemption:
	// ~2500 scheduling points per execution)
	for _, d := range []string{"big-ok", "big-processor-error", "big-wrong"} {
		for _, cancel := range []bool{false, true} {
			c := nodeConfig{deliver: d, cancel: cancel}
			r = append(r, &scenario{name: c.name(), bounds: []int{0}, body: nodeScenario(c), steps: 200000})
		}
	}
	for _, d := range delivers {
		for mask := 0; mask < 8; mask++ {
			c := nodeConfig{deliver: d, cancel: mask&1 != 0, stop: mask&2 != 0, interrupt: mask&4 != 0}
			n := 0
			for m := mask; m > 0; m >>= 1 {
				n += m & 1
			}
			bounds := []int{0, 1}
			if n <= 1 && !thorough {
				bounds = []int{0, 1}
			}
			if thorough {
				bounds = []int{0, 1, 2}
				if n >= 3 {
					bounds = []int{0, 1}
				}
			}
			if d == "none" && mask == 0 {
				continue
			}
			r = append(r, &scenario{name: c.name(), bounds: bounds, body: nodeScenario(c), steps: 20000})
		}
	}
	return r
}

var _ = bitcoin.Hash32{}

var bigBlocks = map[int]*testBlock{}

// mkBigBlock is mkBlock for many transactions (built once per process).
func mkBigBlock(n, k int) *testBlock {
	if b, ok := bigBlocks[n*100000+k]; ok {
		return b
	}
	b := &testBlock{}
	tree := merkle_proof.NewMerkleTree(true)
	for i := 0; i < k; i++ {
		tx := mkTx(50000 + n*16 + i)
		b.txs = append(b.txs, tx)
		tree.AddHash(*tx.TxHash())
	}
	b.header = &wire.BlockHeader{Version: 1, Timestamp: 1600000000 + uint32(n), Bits: 0x1d00ffff, Nonce: uint32(n), MerkleRoot: tree.RootHash()}
	b.hash = *b.header.BlockHash()
	bigBlocks[n*100000+k] = b
	return b
}
