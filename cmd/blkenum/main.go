// blkenum: bounded-exhaustive enumeration of block contents, corruptions and fault positions
// through the real BlockDownloader.HandleBlock (C04), against an independent merkle reference.
package main

import (
	"context"
	"errors"
	"flag"
	"fmt"
	"os"
	"runtime"
	"sort"
	"strings"
	"sync"
	"time"

	"verif/mc"
	"verif/ref"

	bitcoin_reader "github.com/tokenized/bitcoin_reader"
	"github.com/tokenized/logger"
	"github.com/tokenized/pkg/bitcoin"
	"github.com/tokenized/pkg/merkle_proof"
	"github.com/tokenized/pkg/wire"
)

// mkTx returns the i-th transaction of the universe (distinct, deterministic).
func mkTx(i int) *wire.MsgTx {
	tx := wire.NewMsgTx(1)
	var prev bitcoin.Hash32
	prev[0] = byte(i)
	prev[1] = byte(i >> 8)
	tx.AddTxIn(wire.NewTxIn(wire.NewOutPoint(&prev, uint32(i)), bitcoin.Script{0x51}))
	tx.AddTxOut(wire.NewTxOut(uint64(1000+i), bitcoin.Script{0x6a, byte(i)}))
	tx.LockTime = uint32(i)
	return tx
}

var (
	txs   []*wire.MsgTx
	txids []ref.Hash
)

func init() {
	for i := 0; i < 24; i++ {
		t := mkTx(i)
		txs = append(txs, t)
		txids = append(txids, ref.Hash(*t.TxHash()))
	}
}

// Case is one enumerated input.
type Case struct {
	N        int    `json:"n"`        // transactions the header commits to: universe txs 0..n-1
	Relevant uint32 `json:"relevant"` // bit i: the processor marks universe tx i relevant
	Kind     string `json:"kind"`     // corruption / fault kind
	K        int    `json:"k"`        // position parameter
	Count    int    `json:"count"`    // announced count delta
}

func (c Case) String() string {
	return fmt.Sprintf("n=%d relevant=%b %s k=%d countdelta=%d", c.N, c.Relevant, c.Kind, c.K, c.Count)
}

type call struct {
	name  string
	txid  ref.Hash
	proof *merkle_proof.MerkleProof
	hash  bitcoin.Hash32
	list  []bitcoin.Hash32
	h     int
}

type recorder struct {
	relevant  uint32
	calls     []call
	nProcess  int
	nConfirm  int
	failKind  string
	failAt    int
	cancelAt  int
	cancelHow string // cancel | cancel-twice | stop+cancel (the manager cancels and then interrupts Run, which cancels again; a dropped peer followed by the manager's cancel)
	bd        *bitcoin_reader.BlockDownloader
	ctx       context.Context
	keep      *[]kept // sequence part: the store retains the list it is given, as the project's own mock store does
}

// kept is a block record held by a store that retains the slice it was handed.
type kept struct {
	hash  bitcoin.Hash32
	given []bitcoin.Hash32 // as handed over (not copied)
	copy  []bitcoin.Hash32 // its content at that moment
}

var errInjected = errors.New("injected fault")

func txIndex(id ref.Hash) int {
	for i, t := range txids {
		if t == id {
			return i
		}
	}
	return -1
}

func (r *recorder) ProcessTx(ctx context.Context, tx *wire.MsgTx) (bool, error) {
	r.nProcess++
	id := ref.Hash(*tx.TxHash())
	r.calls = append(r.calls, call{name: "ProcessTx", txid: id})
	if r.failKind == "err-process" && r.nProcess == r.failAt {
		return false, errInjected
	}
	if r.cancelAt > 0 && r.nProcess == r.cancelAt {
		switch r.cancelHow {
		case "cancel-twice":
			r.bd.Cancel(r.ctx)
			r.bd.Cancel(r.ctx)
		case "stop+cancel":
			r.bd.Stop(r.ctx)
			r.bd.Cancel(r.ctx)
		default:
			r.bd.Cancel(r.ctx)
		}
	}
	i := txIndex(id)
	return i >= 0 && r.relevant&(1<<uint(i)) != 0, nil
}
func (r *recorder) CancelTx(ctx context.Context, txid bitcoin.Hash32) error { return nil }
func (r *recorder) AddTxConflict(ctx context.Context, txid, c bitcoin.Hash32) error {
	return nil
}
func (r *recorder) ConfirmTx(ctx context.Context, txid bitcoin.Hash32, h int, p *merkle_proof.MerkleProof) error {
	r.nConfirm++
	r.calls = append(r.calls, call{name: "ConfirmTx", txid: ref.Hash(txid), proof: p, h: h})
	if r.failKind == "err-confirm" && r.nConfirm == r.failAt {
		return errInjected
	}
	return nil
}
func (r *recorder) UpdateTxChainDepth(ctx context.Context, txid bitcoin.Hash32, d uint32) error {
	return nil
}
func (r *recorder) ProcessCoinbaseTx(ctx context.Context, hash bitcoin.Hash32, tx *wire.MsgTx) error {
	id := ref.Hash{}
	if tx != nil {
		id = ref.Hash(*tx.TxHash())
	}
	r.calls = append(r.calls, call{name: "ProcessCoinbaseTx", hash: hash, txid: id})
	if r.failKind == "err-coinbase" {
		return errInjected
	}
	return nil
}
func (r *recorder) FetchBlockTxIDs(ctx context.Context, h bitcoin.Hash32) ([]bitcoin.Hash32, bool, error) {
	return nil, false, nil
}
func (r *recorder) AppendBlockTxIDs(ctx context.Context, h bitcoin.Hash32, ids []bitcoin.Hash32) error {
	r.calls = append(r.calls, call{name: "AppendBlockTxIDs", hash: h, list: append([]bitcoin.Hash32{}, ids...)})
	if r.keep != nil && r.failKind != "err-append" {
		*r.keep = append(*r.keep, kept{hash: h, given: ids, copy: append([]bitcoin.Hash32{}, ids...)})
	}
	if r.failKind == "err-append" {
		return errInjected
	}
	return nil
}

type verdict struct {
	violation *mc.Violation
	outcome   string
}

const height = 777

// runCase executes one case on a fresh downloader and applies the oracle.
func runCase(c Case) verdict { return runCaseKeeping(c, nil) }

// runCaseKeeping is runCase with a store that retains the recorded lists in keep.
func runCaseKeeping(c Case, keep *[]kept) verdict {
	ctx := logger.ContextWithNoLogger(context.Background())
	// what the header commits to
	orig := make([]int, c.N)
	for i := range orig {
		orig[i] = i
	}
	origIDs := make([]ref.Hash, c.N)
	for i := range origIDs {
		origIDs[i] = txids[i]
	}
	header := &wire.BlockHeader{Version: 1, Timestamp: 1600000000, Bits: 0x1d00ffff, Nonce: uint32(c.N),
		MerkleRoot: bitcoin.Hash32(ref.MerkleRoot(origIDs))}
	// what is streamed
	stream := append([]int{}, orig...)
	announced := c.N
	rec := &recorder{relevant: c.Relevant, ctx: ctx, keep: keep}
	requested := *header.BlockHash()
	switch c.Kind {
	case "none":
	case "drop":
		stream = append(append([]int{}, orig[:c.K]...), orig[c.K+1:]...)
	case "dup":
		stream = append(append(append([]int{}, orig[:c.K+1]...), orig[c.K]), orig[c.K+1:]...)
	case "dup-group":
		// append a copy of the last K transactions (same merkle root when the level is odd)
		stream = append(append([]int{}, orig...), orig[c.N-c.K:]...)
	case "swap":
		stream[c.K], stream[c.K+1] = stream[c.K+1], stream[c.K]
	case "alter":
		stream[c.K] = 20 // a transaction the header does not commit to
	case "add-foreign":
		stream = append(append(append([]int{}, orig[:c.K]...), 21), orig[c.K:]...)
	case "cut":
		stream = stream[:c.K]
	case "count", "count-wrap":
	case "wrong-block":
		requested[5] ^= 1
	case "wrong-root":
		header.MerkleRoot[3] ^= 1
		requested = *header.BlockHash()
	case "err-process", "err-confirm":
		rec.failKind, rec.failAt = c.Kind, c.K
	case "err-coinbase", "err-append":
		rec.failKind = c.Kind
	case "cancel", "cancel-twice", "stop+cancel":
		rec.cancelAt, rec.cancelHow = c.K, c.Kind
	default:
		panic(c.Kind)
	}
	announced = len(stream) + c.Count
	if c.Kind == "cut" || c.Kind == "drop" || c.Kind == "dup" || c.Kind == "add-foreign" {
		if c.Count == 100 { // announce the original count
			announced = c.N
		}
	}
	if announced < 0 {
		announced = 0
	}
	// announced counts at the boundaries of narrower integer types: the stream still holds exactly
	// the header's transactions, the announcement is larger by 2^8 .. 2^63 (count-wrap, K = table index)
	announcedU := uint64(announced)
	if c.Kind == "count-wrap" {
		announcedU = uint64(len(stream)) + countWraps[c.K]
	}

	bd := bitcoin_reader.NewBlockDownloader(rec, rec, requested, height)
	rec.bd = bd
	ch := make(chan *wire.MsgTx, len(stream)+1)
	for _, i := range stream {
		ch <- txs[i]
	}
	close(ch)
	var ret error
	panicked := ""
	func() {
		defer func() {
			if r := recover(); r != nil {
				panicked = fmt.Sprint(r)
			}
		}()
		ret = bd.HandleBlock(ctx, header, announcedU, ch)
	}()
	fail := func(clause, fp, detail string) verdict {
		return verdict{violation: &mc.Violation{Prop: "C04", Clause: clause, Fingerprint: clause + "|" + c.Kind + "|" + fp,
			Detail: c.String() + ": " + detail, History: c}}
	}
	if panicked != "" {
		return fail("panic", "", "HandleBlock panicked: "+panicked)
	}
	// value on Complete
	var complete error
	gotComplete := false
	select {
	case complete = <-bd.Complete:
		gotComplete = true
	default:
	}
	if !gotComplete {
		return fail("no-complete-signal", "", "HandleBlock returned without a value on Complete")
	}
	if rec.cancelHow != "stop+cancel" {
		// (after Stop - the peer dropped while the handler was busy - both Stop and the handler's end
		// put a value on Complete, which is what its capacity of 2 is for; who signals what when is
		// C16's subject)
		select {
		case <-bd.Complete:
			return fail("double-complete-signal", "", "two values on Complete")
		default:
		}
	}
	_ = ret

	// ---- oracle ----
	received := make([]ref.Hash, len(stream))
	for i, s := range stream {
		received[i] = txids[s]
	}
	verified := *header.BlockHash() == requested && uint64(len(received)) == announcedU &&
		len(received) > 0 && ref.MerkleRoot(received) == ref.Hash(header.MerkleRoot)
	faultBefore := false // a fault or cancellation that happens before the confirmation stage
	if rec.failKind == "err-process" && rec.failAt <= len(stream) {
		faultBefore = true
	}
	if rec.cancelAt > 0 && rec.cancelAt <= len(stream) {
		faultBefore = true
	}
	var post []call
	for _, cl := range rec.calls {
		if cl.name != "ProcessTx" {
			post = append(post, cl)
		}
	}
	if !verified || faultBefore {
		if len(post) != 0 {
			why := "block not fully verified"
			if verified {
				why = "fault/cancel before the confirmation stage"
			}
			return fail("confirmation-without-verification", post[0].name, fmt.Sprintf("%s (%s) but %d confirmation-stage calls were made, first %s", why, describe(header, requested, received, announcedU), len(post), post[0].name))
		}
		if complete == nil {
			return fail("nil-complete-without-processing", "", "Complete carried nil although the block was not processed")
		}
		return verdict{outcome: "refused:" + c.Kind}
	}
	// A stream that repeats a txid is not a valid block; the statement says confirmations happen
	// *only* for verified blocks, so refusing such a stream outright is conforming as well.
	seenID := map[ref.Hash]bool{}
	repeats := false
	for _, id := range received {
		if seenID[id] {
			repeats = true
		}
		seenID[id] = true
	}
	if repeats && len(post) == 0 {
		if complete == nil {
			return fail("nil-complete-without-processing", "", "Complete carried nil although the block was not processed")
		}
		return verdict{outcome: "refused-repeated-txid:" + c.Kind}
	}
	// expected confirmation-stage sequence
	type exp struct {
		name string
		idx  int // position in received
	}
	var want []exp
	want = append(want, exp{"ProcessCoinbaseTx", 0})
	stop := rec.failKind == "err-coinbase"
	if !stop {
		nc := 0
		for i, id := range received {
			ui := txIndex(id)
			if ui >= 0 && c.Relevant&(1<<uint(ui)) != 0 {
				want = append(want, exp{"ConfirmTx", i})
				nc++
				if rec.failKind == "err-confirm" && nc == rec.failAt {
					stop = true
					break
				}
			}
		}
	}
	if !stop {
		want = append(want, exp{"AppendBlockTxIDs", -1})
	}
	full := !stop && rec.failKind != "err-append"
	if len(post) != len(want) {
		return fail("confirmation-sequence-length", fmt.Sprintf("got%d-want%d", len(post), len(want)), fmt.Sprintf("confirmation-stage calls %s, expected %d calls", callNames(post), len(want)))
	}
	var relevantIDs []bitcoin.Hash32
	for i, wnt := range want {
		got := post[i]
		if got.name != wnt.name {
			return fail("confirmation-sequence-order", got.name+"-at-"+wnt.name, fmt.Sprintf("call %d is %s, expected %s (%s)", i, got.name, wnt.name, callNames(post)))
		}
		switch wnt.name {
		case "ProcessCoinbaseTx":
			if got.hash != requested || got.txid != received[0] {
				return fail("coinbase-args", "", "ProcessCoinbaseTx called with the wrong block hash or not with the first transaction")
			}
		case "ConfirmTx":
			id := received[wnt.idx]
			relevantIDs = append(relevantIDs, bitcoin.Hash32(id))
			if got.txid != id {
				return fail("confirm-order", "", fmt.Sprintf("confirmation %d is for tx %d, expected the relevant tx at block position %d", i, txIndex(got.txid), wnt.idx))
			}
			if got.h != height {
				return fail("confirm-height", "", "wrong height in ConfirmTx")
			}
			p := got.proof
			if p == nil || p.BlockHeader == nil || *p.BlockHeader.BlockHash() != requested {
				return fail("proof-header", "", "proof does not carry the block's header")
			}
			if p.GetTxID() == nil || ref.Hash(*p.GetTxID()) != id {
				return fail("proof-txid", "", fmt.Sprintf("confirmation for tx at position %d carries a proof for another txid", wnt.idx))
			}
			if err := p.Verify(); err != nil {
				return fail("proof-verify", "", fmt.Sprintf("proof for position %d does not verify: %v", wnt.idx, err))
			}
			// independent recomputation: expand duplicates into explicit siblings
			if root, ok := recompute(p); !ok || root != ref.Hash(header.MerkleRoot) {
				return fail("proof-recompute", "", fmt.Sprintf("reference recomputation of the proof for position %d does not give the header's merkle root", wnt.idx))
			}
			if p.Index != wnt.idx {
				// the same txid may occur twice (duplicate); the index must be one of its positions
				okIdx := p.Index >= 0 && p.Index < len(received) && received[p.Index] == id
				if !okIdx {
					return fail("proof-index", "", fmt.Sprintf("proof index %d is not a position of that txid (expected %d)", p.Index, wnt.idx))
				}
			}
		case "AppendBlockTxIDs":
			if got.hash != requested {
				return fail("append-hash", "", "AppendBlockTxIDs with the wrong block hash")
			}
			if len(got.list) != len(relevantIDs) {
				return fail("append-list", "", fmt.Sprintf("AppendBlockTxIDs recorded %d txids, %d are relevant", len(got.list), len(relevantIDs)))
			}
			for j := range got.list {
				if got.list[j] != relevantIDs[j] {
					return fail("append-list", "", "AppendBlockTxIDs list differs from the relevant txids in block order")
				}
			}
		}
	}
	if (complete == nil) != full {
		return fail("complete-value", fmt.Sprintf("nil-%t", complete == nil), fmt.Sprintf("Complete carried %v; full processing happened: %t", complete, full))
	}
	if full {
		return verdict{outcome: "confirmed:" + c.Kind}
	}
	return verdict{outcome: "partial:" + c.Kind}
}

func describe(header *wire.BlockHeader, requested bitcoin.Hash32, received []ref.Hash, announced uint64) string {
	return fmt.Sprintf("hash-match=%t received=%d announced=%d root-match=%t", *header.BlockHash() == requested, len(received), announced,
		len(received) > 0 && ref.MerkleRoot(received) == ref.Hash(header.MerkleRoot))
}

func callNames(cs []call) string {
	s := make([]string, len(cs))
	for i, c := range cs {
		s[i] = c.name
	}
	return "[" + strings.Join(s, " ") + "]"
}

// recompute derives the root from (txid, index, path, duplicated layers) with the reference code.
func recompute(p *merkle_proof.MerkleProof) (ref.Hash, bool) {
	h := ref.Hash(*p.GetTxID())
	idx := p.Index
	path := p.Path
	dups := p.DuplicatedIndexes
	layer := 1
	for {
		var sib ref.Hash
		if len(dups) > 0 && dups[0] == layer {
			sib = h
			dups = dups[1:]
		} else if len(path) > 0 {
			sib = ref.Hash(path[0])
			path = path[1:]
		} else {
			break
		}
		if idx&1 == 1 {
			h = ref.MerkleRoot([]ref.Hash{sib, h})
		} else {
			h = ref.MerkleRoot([]ref.Hash{h, sib})
		}
		idx >>= 1
		layer++
	}
	return h, len(dups) == 0 && idx == 0
}

// countWraps: what a count-wrap case adds to the number of transactions streamed.
var countWraps = []uint64{1 << 8, 1 << 16, 1 << 31, 1 << 32, 5 << 32, 1 << 63, 1<<63 | 1<<32}

// enumerate builds the complete case list for a tier.
func enumerate(thorough bool) []Case {
	maxN, fullSubsetsUpTo := 8, 5
	if thorough {
		maxN, fullSubsetsUpTo = 9, 7
	}
	var cases []Case
	for n := 1; n <= maxN; n++ {
		var subsets []uint32
		if n <= fullSubsetsUpTo {
			for s := uint32(0); s < 1<<uint(n); s++ {
				subsets = append(subsets, s)
			}
		} else {
			subsets = append(subsets, 0, 1<<uint(n)-1)
			for i := 0; i < n; i++ {
				subsets = append(subsets, 1<<uint(i))
				for j := i + 1; j < n; j++ {
					subsets = append(subsets, 1<<uint(i)|1<<uint(j))
				}
			}
		}
		for _, s := range subsets {
			add := func(kind string, k, count int) {
				cases = append(cases, Case{N: n, Relevant: s, Kind: kind, K: k, Count: count})
			}
			add("none", 0, 0)
			add("count", 0, 1)
			add("count", 0, -1)
			for k := range countWraps {
				add("count-wrap", k, 0)
			}
			add("wrong-block", 0, 0)
			add("wrong-root", 0, 0)
			add("err-coinbase", 0, 0)
			add("err-append", 0, 0)
			for k := 0; k < n; k++ {
				add("drop", k, 0)
				add("drop", k, 100)
				add("dup", k, 0)
				add("dup", k, 100)
				add("alter", k, 0)
				add("add-foreign", k, 0)
				add("add-foreign", k, 100)
				add("cut", k, 0)
				add("cut", k, 100)
				if k+1 < n {
					add("swap", k, 0)
				}
				add("err-process", k+1, 0)
				add("cancel", k+1, 0)
				add("cancel-twice", k+1, 0)
				add("stop+cancel", k+1, 0)
			}
			add("add-foreign", n, 0)
			for _, g := range []int{2, 4} {
				if g <= n {
					add("dup-group", g, 0)
				}
			}
			// confirm errors at each relevant position
			nc := 0
			for i := 0; i < n; i++ {
				if s&(1<<uint(i)) != 0 {
					nc++
					add("err-confirm", nc, 0)
				}
			}
		}
	}
	return cases
}

func main() {
	tier := flag.String("tier", "quick", "")
	_ = flag.String("prop", "C04", "")
	replay := flag.String("replay", "", "")
	flag.Parse()
	_ = replay
	start := time.Now()
	cases := enumerate(*tier == "thorough")
	results := make([]verdict, len(cases))
	var wg sync.WaitGroup
	workers := runtime.GOMAXPROCS(0)
	for w := 0; w < workers; w++ {
		wg.Add(1)
		go func(w int) {
			defer wg.Done()
			for i := w; i < len(cases); i += workers {
				results[i] = runCase(cases[i])
			}
		}(w)
	}
	wg.Wait()
	outcomes := map[string]int{}
	var vs []mc.Violation
	nontrivial := 0
	// sequence part: downloads follow one another in one process. For every verified block A with
	// relevant transactions, A is followed by every case B of up to 3 transactions with relevant
	// ones (verified, refused, faulty, cancelled), each on a fresh downloader, with a store that
	// retains the list it was handed (as the project's own in-memory store does); after every
	// download every record made so far must still hold what was recorded, and every run must
	// satisfy the single-case oracle.
	pairs := 0
	var seqA, seqB []Case
	for _, c := range cases {
		if c.N <= 3 && c.Relevant != 0 {
			seqB = append(seqB, c)
			if c.Kind == "none" {
				seqA = append(seqA, c)
			}
		}
	}
seq:
	for _, a := range seqA {
		// one chain per A: A, B1, B2, ... in one process without forgetting anything in between, so
		// that state carried from download to download (of any depth) has every chance to show
		var keep []kept
		chain := append([]Case{a}, seqB...)
		for i, c := range chain {
			if r := runCaseKeeping(c, &keep); r.violation != nil {
				r.violation.Detail = fmt.Sprintf("as download %d of the sequence starting with [%s]: %s", i+1, a.String(), r.violation.Detail)
				r.violation.Fingerprint = "sequence|" + r.violation.Fingerprint
				vs = append(vs, *r.violation)
				break seq
			}
			pairs++
			for _, k := range keep {
				same := len(k.given) == len(k.copy)
				for i := 0; same && i < len(k.copy); i++ {
					same = k.given[i] == k.copy[i]
				}
				if !same {
					vs = append(vs, mc.Violation{Prop: "C04", Clause: "record-changed-by-later-download", Fingerprint: "record-changed-by-later-download",
						Detail:  fmt.Sprintf("the relevant txids recorded for verified block %s changed after the later download [%s] (download %d of the sequence starting with [%s]): recorded %v, now %v", k.hash, c.String(), i+1, a.String(), k.copy, k.given),
						History: chain[:i+1]})
					break seq
				}
			}
		}
	}
	outcomes["sequence-downloads-records-intact"] = pairs
	for i, r := range results {
		if r.violation != nil {
			vs = append(vs, *r.violation)
			continue
		}
		outcomes[r.outcome]++
		if cases[i].Kind != "none" {
			nontrivial++
		}
	}
	var keys []string
	for k := range outcomes {
		keys = append(keys, k)
	}
	sort.Strings(keys)
	for _, k := range keys {
		fmt.Fprintf(os.Stderr, "  %-28s %d\n", k, outcomes[k])
	}
	fmt.Fprintf(os.Stderr, "C04 cases=%d violations=%d %.1fs\n", len(cases), len(vs), time.Since(start).Seconds())
	samples := []any{}
	for i := 0; i < len(cases); i += len(cases)/10 + 1 {
		samples = append(samples, map[string]any{"case": cases[i].String(), "outcome": results[i].outcome})
	}
	ev := &mc.Evidence{PropertyID: "C04", Tier: *tier, Level: "fault_enumeration",
		Coverage: map[string]any{
			"evaluations":         len(cases),
			"distinct_nontrivial": nontrivial,
			"rule":                "complete Cartesian enumeration: block size n x relevant subset x {no corruption; drop/duplicate/alter/insert-foreign tx at every position; copy of the last 2 or 4 transactions appended (announcing the streamed and the original count); swap of every adjacent pair; stream cut after every k; announced count +-1 and larger by 2^8, 2^16, 2^31, 2^32, 5*2^32, 2^63, 2^63+2^32 (a count compared in a narrower type); header not the requested one; header with wrong merkle root; error returned by ProcessTx at every call, by ProcessCoinbaseTx, by ConfirmTx at every relevant position, by AppendBlockTxIDs; Cancel, Cancel twice, and Stop followed by Cancel, issued from inside every ProcessTx call}. Each case is one execution of the real HandleBlock on a fresh BlockDownloader; plus the sequence part: every verified block with relevant transactions followed, in one process, by every case of up to 3 transactions with relevant ones, with a store that retains the list it is handed - after every download every record made so far must be unchanged. All cases are distinct by construction; non-trivial = has a corruption or fault (kind != none)",
			"exhaustive":          true,
			"outcomes":            outcomes,
			"samples":             samples,
			"max_block_size":      cases[len(cases)-1].N,
		},
		Assumptions: []string{
			"HandleBlock is driven directly with a pre-filled, closed transaction channel (sequential, deterministic); interleavings with Run/Cancel/Stop are C16's subject",
			"a stream that repeats a txid (e.g. a block extended by a copy of its last transactions, which has the same merkle root) may either be refused outright or be processed with verifying proofs; both conform to 'confirmations only for verified blocks'",
			"merkle reference in /verif/ref is trusted",
		},
		Wall: time.Since(start).Seconds()}
	os.Exit(mc.Finish(ev, vs))
}
