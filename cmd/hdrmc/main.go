// hdrmc: explicit-state model checking of the real headers.Repository (engine A).
package main

import (
	"encoding/json"
	"flag"
	"fmt"
	"os"
	"sort"
	"strings"
	"time"

	"verif/hdr"
	"verif/mc"
)

// Scenario is one closed system + bounds + oracles.
type Scenario struct {
	Name             string        `json:"name"`
	Cfg              hdr.Config    `json:"config"`
	N                int           `json:"max_submissions"`                         // bound on submissions of new headers
	M                int           `json:"max_maintenance"`                         // bound on maintenance operations
	Maint            []hdr.Op      `json:"maintenance_ops"`                         // maintenance alphabet
	Subs             int           `json:"max_subscribers"`                         // bound on subscribe operations
	Marks            int           `json:"max_marks"`                               // bound on mark/unmark operations
	Slots            []string      `json:"slots"`                                   // child slots offered per parent (default a,b,H)
	Races            []int         `json:"concurrent_submitter_variants,omitempty"` // offer fullrace(variant) operations on the genesis-only chain with a subscriber
	Lag              int           `json:"lagging_growth,omitempty"`                // offer one growlag(Lag) operation on the genesis-only chain
	Attach           []int         `json:"attach,omitempty"`                        // base worlds: base heights (relative to base tip, <= 0) where forks may start
	Probes           bool          `json:"probes"`                                  // add duplicate / orphan submissions as operations
	Grows            int           `json:"max_grow_ops,omitempty"`                  // bound on "grow" operations (extend the best chain by GrowBy headers at once)
	GrowBy           int           `json:"grow_by,omitempty"`
	GrowSides        int           `json:"max_growside_ops,omitempty"` // bound on "growside" operations (extend the heaviest side leaf by GrowSideBy double-work headers)
	GrowSideBy       int           `json:"growside_by,omitempty"`
	GrowXs           int           `json:"max_growx_ops,omitempty"` // bound on "growx" operations (extend the heaviest side leaf by GrowXBy unit-work headers: a long side branch that stays behind)
	GrowXBy          int           `json:"growx_by,omitempty"`
	MarkRaces        bool          `json:"mark_races,omitempty"`            // offer unmarkrace operations: an unmark with a second caller's mark arriving inside its storage write
	UnmarkConfigured bool          `json:"unmark_configured,omitempty"`     // offer unmark for hashes marked through the configuration
	MarkOnlyKnown    bool          `json:"mark_only_known,omitempty"`       // marks: accepted headers only (no pre-empted or unknown hashes, no unmarking)
	Faults           []int         `json:"storage_fault_at_call,omitempty"` // submissions reaching a multiple of 10000 are also offered with the k-th storage call failing
	OnlyTipParents   int           `json:"only_tip_parents,omitempty"`      // offer children only for the last k accepted headers (tall prefix chains)
	ForeignProbes    bool          `json:"foreign_probes,omitempty"`        // offer the synthetic foreign split headers with unknown parents too
	WorkProbe        bool          `json:"work_probe,omitempty"`            // add a submission with proof-of-work checking switched on
	MaxTime          time.Duration `json:"-"`
	oracles          []oracle
}

// oracle is one property's check of a transition: pre runs in the state before the last
// operation of the history (to capture what "before" looked like), post after it.
type oracle struct {
	pre  func(*checker)
	post func(*checker)
}

func countOps(hist []hdr.Op, kinds ...string) int {
	n := 0
	for _, o := range hist {
		for _, k := range kinds {
			if o.K == k {
				n++
			}
		}
	}
	return n
}

func countResub(hist []hdr.Op, l string) int {
	n := 0
	for _, o := range hist {
		if o.K == "sub" && o.L == l {
			n++
		}
	}
	return n
}

var maintKinds = []string{"clean", "cleand", "save", "reload", "reloadd"}

// enabled lists the operations offered in the final state of a history.
func (sc *Scenario) enabled(w *hdr.World, hist []hdr.Op) []hdr.Op {
	var ops []hdr.Op
	slots := sc.Slots
	if slots == nil {
		slots = []string{"a", "b", "H"}
	}
	newCount := 0
	seenLabel := map[string]bool{}
	for _, o := range hist {
		if (o.K == "sub" || o.K == "subw") && !seenLabel[o.L] && !strings.Contains(o.L, "/x/") && !strings.HasSuffix(o.L, "/w") {
			seenLabel[o.L] = true
			newCount++
		}
	}
	// parents: every accepted header (model), in acceptance order; plus base attach points
	var parents []string
	if w.Cfg.Base > 0 {
		for _, rel := range sc.Attach {
			parents = append(parents, hdr.BaseLabel(w.Cfg.Base+rel))
		}
	}
	for _, n := range w.Tree.Sorted() {
		parents = append(parents, n.Label)
	}
	if sc.OnlyTipParents > 0 && len(parents) > sc.OnlyTipParents {
		parents = parents[len(parents)-sc.OnlyTipParents:]
	}
	if newCount < sc.N {
		for _, p := range parents {
			usedL := false
			for _, s := range slots {
				l := p + "/" + s
				if w.Submitted[l] {
					continue
				}
				if s != "H" {
					if usedL {
						continue // only the lowest unused unit-work slot (sibling symmetry)
					}
					usedL = true
				}
				ops = append(ops, hdr.Op{K: "sub", L: l})
				if len(sc.Faults) > 0 && (hdr.LabelHeight(l, w.Cfg.Base)%10000) == 0 {
					// the submission that triggers the automatic clean, with a storage fault in it
					for _, f := range sc.Faults {
						ops = append(ops, hdr.Op{K: "sub", L: l, D: f})
					}
				}
			}
		}
	}
	if sc.Probes {
		// duplicates of every submitted header and one orphan per state; these are expected to
		// leave the state unchanged, so they never grow the state space.
		var labels []string
		for l := range w.Submitted {
			labels = append(labels, l)
		}
		sort.Strings(labels)
		for _, l := range labels {
			ops = append(ops, hdr.Op{K: "sub", L: l})
		}
		if len(parents) > 0 {
			p := parents[len(parents)-1]
			ops = append(ops, hdr.Op{K: "sub", L: p + "/x/a"}) // parent p/x never submitted
			if sc.WorkProbe {
				ops = append(ops, hdr.Op{K: "subw", L: p + "/w"}) // proof-of-work checking on
			}
		}
	}
	if sc.ForeignProbes {
		// the foreign split headers are offered in every state, whether or not their parent is known
		for _, l := range []string{hdr.SynthF2After, hdr.SynthF3After} {
			if !w.Submitted[l] || countResub(hist, l) < 2 {
				ops = append(ops, hdr.Op{K: "sub", L: l})
			}
		}
	}
	if countOps(hist, maintKinds...) < sc.M {
		for _, o := range sc.Maint {
			if o.K == "reload" && o.L == "nosave" && !w.InSync() {
				continue // a restart without Save is only offered while storage holds exactly the accepted headers
			}
			ops = append(ops, o)
		}
	}
	if countOps(hist, "mark", "unmark", "markx", "unmarkrace") < sc.Marks {
		for _, n := range w.Tree.Sorted() {
			if n.Label != "G" {
				ops = append(ops, hdr.Op{K: "mark", L: n.Label})
			}
		}
		// a header not seen yet (pre-empt): the lowest unused child of the latest accepted header
		if len(parents) > 0 && !sc.MarkOnlyKnown {
			l := parents[len(parents)-1] + "/a"
			if !w.Submitted[l] && !w.IsMarkedLabel(l) {
				ops = append(ops, hdr.Op{K: "mark", L: l})
			}
		}
		if countOps(hist, "markx") == 0 && !sc.MarkOnlyKnown {
			ops = append(ops, hdr.Op{K: "markx", D: 1})
		}
		for _, l := range w.MarkedLabels {
			ops = append(ops, hdr.Op{K: "unmark", L: l})
			if len(ops) > 0 && !w.Submitted[l] {
				continue
			}
		}
		if sc.MarkRaces {
			// every marked header unmarked while a second caller marks any other accepted header
			for _, l := range w.MarkedLabels {
				for _, n := range w.Tree.Sorted() {
					if n.Label != "G" && n.Label != l {
						ops = append(ops, hdr.Op{K: "unmarkrace", L: l + "|" + n.Label})
					}
				}
			}
		}
		if sc.UnmarkConfigured {
			// hashes that are marked because the configuration lists them can be unmarked like any other
			for _, l := range uniq(sc.Cfg.Invalid) {
				if w.IsMarkedHash(l) && !w.IsMarkedLabel(l) {
					ops = append(ops, hdr.Op{K: "unmark", L: l})
				}
			}
		}
	}
	if sc.Marks > 0 {
		// re-offer headers that were removed by marking or refused as marked (resubmission)
		reoffer := append(append([]string{}, w.Removed...), w.MarkedLabels...)
		if sc.UnmarkConfigured {
			reoffer = append(reoffer, uniq(sc.Cfg.Invalid)...)
		}
		for _, l := range reoffer {
			if w.Tree.Get(hdr.RH(hdr.Get(l).Hash)) == nil && countResub(hist, l) < 2 {
				ops = append(ops, hdr.Op{K: "sub", L: l})
			}
		}
	}
	if countOps(hist, "grow") < sc.Grows {
		ops = append(ops, hdr.Op{K: "grow", D: sc.GrowBy})
	}
	if countOps(hist, "growside") < sc.GrowSides {
		ops = append(ops, hdr.Op{K: "growside", D: sc.GrowSideBy})
	}
	if countOps(hist, "growx") < sc.GrowXs {
		ops = append(ops, hdr.Op{K: "growx", D: sc.GrowXBy})
	}
	if sc.Lag > 0 && countOps(hist, "growlag", "fullrace") == 0 && countOps(hist, "sub", "grow", "growside", "growx") == 0 {
		ops = append(ops, hdr.Op{K: "growlag", D: sc.Lag})
		if countOps(hist, "subscribe") > 0 {
			ops = append(ops, hdr.Op{K: "fullrace"}, hdr.Op{K: "fullrace", D: 1}, hdr.Op{K: "fullrace", D: 2})
		}
	}
	if len(sc.Races) > 0 && countOps(hist, "fullrace", "sub") == 0 && countOps(hist, "subscribe") > 0 {
		for _, d := range sc.Races {
			ops = append(ops, hdr.Op{K: "fullrace", D: d})
		}
	}
	if countOps(hist, "subscribe") < sc.Subs {
		ops = append(ops, hdr.Op{K: "subscribe"})
	}
	return ops
}

func (sc *Scenario) run(prop string, hist []hdr.Op) mc.Result[hdr.Op] {
	n := len(hist)
	var w *hdr.World
	var err error
	if n == 0 {
		w, err = hdr.Run(sc.Cfg, nil)
	} else {
		w, err = hdr.Run(sc.Cfg, hist[:n-1])
	}
	if err != nil {
		return mc.Result[hdr.Op]{Key: "init-error", Violations: []mc.Violation{{Prop: prop,
			Clause: "init", Fingerprint: "init|" + normalize(err.Error()), Detail: err.Error(), History: hist, Config: sc.Cfg}}}
	}
	c := &checker{prop: prop, w: w, hist: hist, sc: sc, pre: map[string]any{}}
	var st *hdr.Step
	if n > 0 {
		c.op = &hist[n-1]
		for _, o := range sc.oracles {
			if o.pre != nil {
				o.pre(c)
			}
		}
		st = w.Apply(hist[n-1])
		c.st = st
	}
	// state key and enabled operations are taken before the post-oracles run: some of them
	// continue to operate on this (throw-away) world
	key := w.Key()
	next := sc.enabled(w, hist)
	for _, o := range sc.oracles {
		if len(c.vs) > 0 {
			break
		}
		o.post(c)
	}
	r := mc.Result[hdr.Op]{Violations: c.vs, Checks: c.n, Counters: c.counters}
	r.Outcomes = outcomes(w, st)
	if len(c.vs) == 0 {
		r.Key = key
		r.Next = next
	}
	return r
}

// outcomes labels what happened on the transition, to expose vacuity in the evidence.
func outcomes(w *hdr.World, st *hdr.Step) []string {
	if st == nil {
		return []string{"init"}
	}
	var r []string
	switch st.Op.K {
	case "sub":
		r = append(r, "verdict:"+strings.SplitN(st.Class, ":", 2)[0])
		if st.PreTip != st.PostTip {
			pre, post := w.Tree.Get(hdr.RH(st.PreTip)), w.Tree.Get(hdr.RH(st.PostTip))
			if pre != nil && post != nil && post.Parent == pre {
				r = append(r, "tip:extended")
			} else if pre != nil && post != nil {
				r = append(r, fmt.Sprintf("tip:reorg-depth-%d", pre.Height-refFork(pre, post)))
			} else {
				r = append(r, "tip:changed-unmodelled")
			}
		} else if st.Class == hdr.VOK && !st.Known {
			r = append(r, "tip:side-branch-grew")
		}
	default:
		r = append(r, "op:"+st.Op.K)
		if st.Err != "" {
			r = append(r, "op-error:"+st.Op.K)
		}
	}
	return r
}

func main() {
	prop := flag.String("prop", "C01", "property id")
	tier := flag.String("tier", "quick", "quick|thorough")
	replay := flag.String("replay", "", "replay a violation file instead of searching")
	only := flag.String("scenario", "", "only scenarios whose name contains this (diagnostics; evidence then covers only those)")
	flag.Parse()
	if *prop == "C03" {
		// the first repository of this process is one of another network (see realSplitPart): what it
		// was configured with must not reach the mainnet repositories created afterwards
		otherNetworkFirst()
	}
	if os.Getenv("VERIF_TIER") != "" && *tier == "" {
		*tier = os.Getenv("VERIF_TIER")
	}

	if *replay != "" {
		os.Exit(doReplay(*prop, *replay))
	}

	scs := scenarios(*prop, *tier)
	if scs == nil {
		fmt.Fprintln(os.Stderr, "unknown property", *prop)
		os.Exit(2)
	}
	start := time.Now()
	total := &mc.Stats{Exhaustive: true}
	var all []mc.Violation
	var perScenario []map[string]any
	for _, sc := range scs {
		sc := sc
		if *only != "" && !strings.Contains(sc.Name, *only) {
			continue
		}
		var deadline time.Time
		if sc.MaxTime > 0 {
			deadline = time.Now().Add(sc.MaxTime)
		}
		st, vs := mc.Search(func(h []hdr.Op) mc.Result[hdr.Op] { return sc.run(*prop, h) }, 0, deadline, 997)
		fmt.Fprintf(os.Stderr, "%s %-28s states=%d transitions=%d depth=%d exhaustive=%t violations=%d %.1fs\n",
			*prop, sc.Name, st.States, st.Transitions, st.MaxDepth, st.Exhaustive, len(vs), st.Wall)
		var samples []any
		for _, s := range st.Samples {
			samples = append(samples, map[string]any{"scenario": sc.Name, "history": hdr.HistString(s.([]hdr.Op))})
		}
		st.Samples = samples
		if !st.Exhaustive {
			total.Exhaustive = false
			total.CapHit = sc.Name + ": " + st.CapHit
		}
		total.Merge(st)
		perScenario = append(perScenario, map[string]any{"scenario": sc, "states": st.States,
			"transitions": st.Transitions, "depth": st.MaxDepth, "exhaustive": st.Exhaustive,
			"cap_hit": st.CapHit, "states_per_depth": st.LevelStates, "wall_s": st.Wall})
		all = append(all, vs...)
	}
	if len(total.Samples) > 16 {
		total.Samples = total.Samples[:16]
	}
	extra := map[string]any{"scenarios": perScenario}
	if *prop == "C03" {
		vs, n, samples := realSplitPart()
		all = append(all, vs...)
		total.Checks += n
		extra["real_split_table_evaluations"] = n
		total.Samples = append(total.Samples, samples[:minInt(4, len(samples))]...)
	}
	ev := &mc.Evidence{PropertyID: *prop, Tier: *tier, Level: level(*prop),
		Coverage:    mc.ModelCheckingCoverage(total, extra),
		Assumptions: assumptions(*prop), Wall: time.Since(start).Seconds()}
	if ev.Level == "fault_enumeration" {
		ev.Coverage["evaluations"] = total.Counters["crash_points"]
		ev.Coverage["distinct_nontrivial"] = total.Counters["distinct_mid_sequence_images"]
		ev.Coverage["rule"] = "one evaluation = one crash point: the storage image 'state before the operation + first k recorded Write/Remove calls' of a Clean/Save in an explored history, loaded by a fresh repository and checked; enumerated for every k from 0 to all calls, for every such operation in every history of the search. distinct_nontrivial counts distinct storage images (by content digest) among crash points strictly inside a write sequence (0 < k < all)"
	}
	os.Exit(mc.Finish(ev, all))
}

func minInt(a, b int) int {
	if a < b {
		return a
	}
	return b
}

func doReplay(prop, path string) int {
	b, err := os.ReadFile(path)
	if err != nil {
		fmt.Fprintln(os.Stderr, err)
		return 2
	}
	var v struct {
		Prop    string     `json:"property"`
		History []hdr.Op   `json:"history"`
		Config  hdr.Config `json:"config"`
		Clause  string     `json:"clause"`
	}
	if err := json.Unmarshal(b, &v); err != nil {
		fmt.Fprintln(os.Stderr, err)
		return 2
	}
	if v.Prop != "" {
		prop = v.Prop
	}
	scs := scenarios(prop, "quick")
	sc := scs[0]
	sc.Cfg = v.Config
	failed := 0
	for i := 0; i < 5; i++ {
		r := sc.run(prop, v.History)
		if len(r.Violations) > 0 {
			failed++
			if i == 0 {
				fmt.Printf("replay: %s\n  clause=%s\n  detail=%s\n", hdr.HistString(v.History), r.Violations[0].Clause, r.Violations[0].Detail)
			}
		}
	}
	fmt.Printf("replay failed %d/5 times\n", failed)
	if failed > 0 {
		fmt.Printf("VIOLATION property=%s replay=%s\n", prop, path)
		return 1
	}
	return 0
}

func uniq(l []string) []string {
	var r []string
	seen := map[string]bool{}
	for _, x := range l {
		if !seen[x] {
			seen[x] = true
			r = append(r, x)
		}
	}
	return r
}
