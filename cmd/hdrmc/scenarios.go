package main

import (
	"time"

	"verif/hdr"
	"verif/ref"
)

func refFork(a, b *ref.Node) int {
	f := ref.ForkPoint(a, b)
	if f == nil {
		return -1
	}
	return f.Height
}

func level(prop string) string {
	switch prop {
	case "C12":
		return "fault_enumeration"
	}
	return "model_checking"
}

func assumptions(prop string) []string {
	a := []string{
		"header universe: every known header may get unit-work children (slots a,b; lowest unused first) and one double-work child (slot H); proof-of-work checking disabled through the repository's own DisableDifficulty switch (proof of work is C02's subject)",
		"state de-duplication is exact: key = full internal dump (verif hook) + digest of every storage key/value + reference-model state; nothing is abstracted",
		"callers of the repository are serialised by its single mutex, so concurrent arrival from several peers is an arrival order; all arrival orders within the bound are enumerated",
	}
	return a
}

var (
	opClean  = hdr.Op{K: "clean"}
	opSave   = hdr.Op{K: "save"}
	opReload = hdr.Op{K: "reload"}
)

func scenarios(prop, tier string) []*Scenario {
	quick := tier != "thorough"
	pick := func(q, t int) int {
		if quick {
			return q
		}
		return t
	}
	var r []*Scenario
	switch prop {
	case "C01":
		r = append(r,
			&Scenario{Name: "genesis/submit-only", Cfg: hdr.Config{MaxBranchDepth: 144}, N: pick(6, 8), Probes: true},
			&Scenario{Name: "genesis/maintenance", Cfg: hdr.Config{MaxBranchDepth: 144}, N: pick(5, 6), M: pick(2, 3),
				Maint: []hdr.Op{opClean, opSave, opReload}},
			&Scenario{Name: "genesis/initload+depth2", Cfg: hdr.Config{MaxBranchDepth: 2, InitLoad: true}, N: pick(5, 6), M: 1,
				Maint: []hdr.Op{opClean, opReload}},
		)
		for _, base := range bases(quick) {
			r = append(r, &Scenario{Name: baseName(base), Cfg: hdr.Config{MaxBranchDepth: 144, Base: base}, N: pick(3, 4), M: 1,
				Maint: []hdr.Op{opClean, opReload}, Attach: []int{0, -1, -2}, Slots: []string{"a", "H"}})
		}
		for _, base := range []int{9997, 9998} {
			r = append(r, &Scenario{Name: baseName(base) + "/auto-clean-boundary", Cfg: hdr.Config{MaxBranchDepth: 144, Base: base}, N: pick(4, 5),
				Attach: []int{0, -1}, Slots: []string{"a", "H"}})
		}
		// stale side branches around the prune boundary (tip deeper than, at, and above the retained
		// depth when Clean prunes), which later receive enough headers to overtake
		r = append(r,
			&Scenario{Name: "genesis/grow+growside-prune-depth-3", Cfg: hdr.Config{MaxBranchDepth: 2}, N: pick(4, 5), M: 1, Grows: 1, GrowBy: 4, GrowSides: 1, GrowSideBy: 4,
				Maint: []hdr.Op{{K: "cleand", D: 3}}, Slots: []string{"a", "H"}},
			&Scenario{Name: "genesis/grow+growside-prune-depth-2", Cfg: hdr.Config{MaxBranchDepth: 1}, N: pick(4, 5), M: 1, Grows: 1, GrowBy: 3, GrowSides: 1, GrowSideBy: 3,
				Maint: []hdr.Op{{K: "cleand", D: 2}}, Slots: []string{"a", "H"}},
			// the same shapes across a restart that keeps 3 headers: a side branch whose fork point is
			// below what the restart keeps is not restored, and neither is a branch of that branch -
			// whatever is restored and later grows has to be able to take over
			&Scenario{Name: "genesis/grow+growside-restart-depth-3", Cfg: hdr.Config{MaxBranchDepth: 2}, N: pick(4, 5), M: 1, Grows: 1, GrowBy: 4, GrowSides: 1, GrowSideBy: 4,
				Maint: []hdr.Op{{K: "reloadd", D: 3}}},
			// a long side branch that stays behind (growx) with a branch of its own: after the growth of
			// the best chain and the restart the outer one cannot be restored (its fork point is below
			// what is kept), the inner one hangs off it - and then grows past the reported chain
			&Scenario{Name: "genesis/nested-forks+grow+restart-depth-3", Cfg: hdr.Config{MaxBranchDepth: 2}, N: 3, M: 1, Grows: 1, GrowBy: 4, GrowXs: 1, GrowXBy: 3, GrowSides: 1, GrowSideBy: 4,
				Maint: []hdr.Op{{K: "reloadd", D: 3}}},
		)
		// marking and unmarking (C17's operations) inside C01's histories: a header that was removed
		// and is acceptable again must be selected like any other
		r = append(r, &Scenario{Name: "genesis/mark-unmark", Cfg: hdr.Config{MaxBranchDepth: 144}, N: pick(4, 5), Marks: 2, M: 1,
			Maint: []hdr.Op{opReload}, Slots: []string{"a", "H"}})
		// two submitters at once while the announcement of a reorganisation waits for a subscriber
		// whose buffer is full: one makes a side branch overtake, the other extends the chain that is
		// still reported and makes it the heavier one again
		r = append(r, &Scenario{Name: "genesis/concurrent-submitters", Cfg: hdr.Config{MaxBranchDepth: 144}, N: 1, Subs: 1, Races: []int{0, 1},
			Slots: []string{"a", "H"}, OnlyTipParents: 2})
		// two prunes with growth in between on one instance (with the lookups after every operation:
		// what was read before the second Clean must not be what is answered after it)
		r = append(r, &Scenario{Name: "genesis/two-prunes-depth-2", Cfg: hdr.Config{MaxBranchDepth: 1}, N: pick(5, 6), M: 2,
			Maint: []hdr.Op{{K: "cleand", D: 2}}, Slots: []string{"a", "H"}})
		r = append(r, &Scenario{Name: "genesis/grow-prune-grow-prune-depth-2", Cfg: hdr.Config{MaxBranchDepth: 1}, N: 2, M: 2, Grows: 2, GrowBy: 4,
			Maint: []hdr.Op{{K: "cleand", D: 2}}, Slots: []string{"a", "H"}, OnlyTipParents: 2})
		for _, s := range r {
			s.oracles = []oracle{oracleC01}
			// the lookup API is called after every operation of the history (a read must not influence
			// later answers: caches)
			s.Cfg.ObserveReads = true
		}
	case "C07":
		r = append(r,
			&Scenario{Name: "genesis/1-2-subscribers", Cfg: hdr.Config{MaxBranchDepth: 144}, N: pick(6, 7), Subs: 2, Probes: true},
			// cousin reorganisations between a branch of a branch and a later fork need 7 headers
			&Scenario{Name: "genesis/7-headers-1-subscriber", Cfg: hdr.Config{MaxBranchDepth: 144}, N: 7, Subs: 1, Slots: []string{"a", "H"}},
			&Scenario{Name: "genesis/clean+reload", Cfg: hdr.Config{MaxBranchDepth: 144}, N: pick(5, 6), Subs: 1, M: pick(1, 2),
				Maint: []hdr.Op{opClean, opReload}},
		)
		// a subscriber that lags behind by more than its buffer holds (10000 announcements): the
		// producer has to wait for it, nothing is dropped; then forks and extensions on top
		r = append(r, &Scenario{Name: "genesis/lagging-subscriber", Cfg: hdr.Config{MaxBranchDepth: 144}, N: 2, Subs: 1, Lag: 12000,
			Attach: nil, Slots: []string{"a", "H"}, OnlyTipParents: 2})
		// the automatic clean at every 10000th height runs inside ProcessHeader, between the change
		// of the best chain and its announcement: tips just below 10000, forks and extensions across it
		for _, base := range []int{9997, 9998} {
			r = append(r, &Scenario{Name: baseName(base) + "/auto-clean-boundary", Cfg: hdr.Config{MaxBranchDepth: 144, Base: base}, N: pick(4, 5), Subs: 1,
				Attach: []int{0, -1}, Slots: []string{"a", "H"}})
			// the same with a storage fault at the 1st .. 6th storage call of the automatic clean
			r = append(r, &Scenario{Name: baseName(base) + "/auto-clean-boundary/storage-fault", Cfg: hdr.Config{MaxBranchDepth: 144, Base: base}, N: 3, Subs: 1,
				Attach: []int{0}, Slots: []string{"a", "H"}, Faults: []int{1, 2, 3, 4, 5, 6}, OnlyTipParents: 1})
		}
		// small fork-depth limits: a fork that was started within the limit stays alive while the best
		// chain grows far past it, then overtakes (and the old chain takes the tip back): the
		// announcement starts right above the fork point however deep that is by then
		for _, d := range []int{1, 2} {
			r = append(r, &Scenario{Name: "genesis/long-lived-fork/maxdepth-" + itoa(d), Cfg: hdr.Config{MaxBranchDepth: d}, N: pick(3, 4), Subs: 1, Grows: 2, GrowBy: 3, GrowSides: 1, GrowSideBy: 4,
				Slots: []string{"a", "H"}})
		}
		for _, s := range r {
			s.oracles = []oracle{oracleC07}
		}
	case "C08":
		for _, d := range []int{0, 1, 2, 144} {
			r = append(r, &Scenario{Name: "genesis/maxdepth-" + itoa(d), Cfg: hdr.Config{MaxBranchDepth: d, Invalid: []string{"G/a/b"}},
				N: pick(5, 6), M: 1, Maint: []hdr.Op{opClean}, Probes: true, WorkProbe: true, Subs: 1})
		}
		r = append(r, &Scenario{Name: "genesis/synthetic-splits", Cfg: hdr.Config{MaxBranchDepth: 2, Splits: "synth"},
			N: pick(5, 6), M: 1, Maint: []hdr.Op{opClean}, Probes: true})
		// a restart with a longer configured invalid list than the one persisted by the previous run
		r = append(r, &Scenario{Name: "genesis/invalid-list-extended-at-restart", Cfg: hdr.Config{MaxBranchDepth: 144, Invalid: []string{"G/a/a"}, InvalidLater: []string{"G/a/b", "G/b"}},
			N: pick(4, 5), M: 1, Maint: []hdr.Op{opReload}, Probes: true})
		// headers marked invalid at run time (anywhere in a branch), then offered again together with
		// their children, unmarked, offered again
		r = append(r, &Scenario{Name: "genesis/marked-at-run-time", Cfg: hdr.Config{MaxBranchDepth: 144}, N: pick(4, 5), Marks: 2, M: 1,
			Maint: []hdr.Op{opClean}, Probes: true, Slots: []string{"a", "H"}})
		// hashes marked before their header arrives (and known ones), with a restart that is NOT
		// preceded by a Save (offered while storage holds exactly the accepted headers): the verdict
		// for a marked hash must not depend on the process having been restarted
		r = append(r, &Scenario{Name: "genesis/marked-then-restart-without-save", Cfg: hdr.Config{MaxBranchDepth: 144}, N: pick(3, 4), Marks: 2, M: 2,
			Maint: []hdr.Op{opSave, {K: "reload", L: "nosave"}}, Probes: true, Slots: []string{"a", "H"}})
		// seven headers reach reorganisations between a branch of a branch and an unrelated later fork:
		// a submission that the rules accept must be answered as accepted there too (no error after
		// the header was taken in)
		r = append(r, &Scenario{Name: "genesis/7-headers", Cfg: hdr.Config{MaxBranchDepth: 144}, N: 7, Slots: []string{"a", "H"}})
		for _, s := range r {
			s.oracles = []oracle{oracleC08verdict, oracleC08nochange}
		}
	case "C09":
		r = append(r,
			&Scenario{Name: "genesis/submit+clean+reload", Cfg: hdr.Config{MaxBranchDepth: 144}, N: pick(5, 6), M: pick(2, 3),
				Maint: []hdr.Op{opClean, opReload}},
			&Scenario{Name: "genesis/prune-depth-3", Cfg: hdr.Config{MaxBranchDepth: 2}, N: pick(6, 7), M: pick(1, 2),
				Maint: []hdr.Op{{K: "cleand", D: 3}, {K: "reloadd", D: 3}}, Slots: []string{"a", "H"}},
			&Scenario{Name: "genesis/prune-depth-2", Cfg: hdr.Config{MaxBranchDepth: 1}, N: pick(6, 7), M: pick(1, 2),
				Maint: []hdr.Op{{K: "cleand", D: 2}, {K: "reloadd", D: 2}}, Slots: []string{"a", "H"}},
		)
		for _, base := range bases(quick) {
			r = append(r, &Scenario{Name: baseName(base), Cfg: hdr.Config{MaxBranchDepth: 144, Base: base}, N: pick(3, 4), M: 1,
				Maint: []hdr.Op{opClean, opReload}, Attach: []int{0, -1, -2}, Slots: []string{"a", "H"}})
		}
		r = append(r, fileBoundaryRestart(), prunedFiles())
		// lookups after a header on a pruned branch was marked invalid (history is restored from
		// storage before the branch is trimmed)
		r = append(r, &Scenario{Name: "genesis/mark-after-prune-depth-3", Cfg: hdr.Config{MaxBranchDepth: 2}, N: pick(3, 4), Marks: 1, M: 1, Grows: 1, GrowBy: 4,
			Maint: []hdr.Op{{K: "cleand", D: 3}, {K: "reloadd", D: 3}}, Slots: []string{"a", "H"}})
		// two prunes with growth in between on one instance: the header file that holds the prune
		// boundary is rewritten by the second Clean after it was read for the lookups that follow
		// the first (what was read from storage once must not be what is answered later)
		r = append(r, &Scenario{Name: "genesis/two-prunes-depth-2", Cfg: hdr.Config{MaxBranchDepth: 1}, N: pick(5, 6), M: 2,
			Maint: []hdr.Op{{K: "cleand", D: 2}}, Slots: []string{"a", "H"}, OnlyTipParents: 2})
		r = append(r, &Scenario{Name: "genesis/grow-prune-grow-prune-depth-2", Cfg: hdr.Config{MaxBranchDepth: 1}, N: 2, M: 2, Grows: 2, GrowBy: 4,
			Maint: []hdr.Op{{K: "cleand", D: 2}}, Slots: []string{"a", "H"}, OnlyTipParents: 2})
		for _, s := range r {
			s.oracles = []oracle{oracleC09}
			// lookups are also made after every operation of the history, not only in the state under
			// examination (a lookup must not influence later answers)
			s.Cfg.ObserveReads = true
		}
	case "C10":
		r = append(r,
			&Scenario{Name: "genesis/clean-anywhere", Cfg: hdr.Config{MaxBranchDepth: 144}, N: pick(6, 7), M: pick(2, 3),
				Maint: []hdr.Op{opClean}},
			&Scenario{Name: "genesis/prune-depth-2", Cfg: hdr.Config{MaxBranchDepth: 1}, N: pick(6, 7), M: pick(2, 3),
				Maint: []hdr.Op{{K: "cleand", D: 2}}, Slots: []string{"a", "H"}},
			&Scenario{Name: "genesis/prune-depth-3", Cfg: hdr.Config{MaxBranchDepth: 2}, N: pick(6, 7), M: pick(2, 3),
				Maint: []hdr.Op{{K: "cleand", D: 3}}, Slots: []string{"a", "H"}},
			&Scenario{Name: "genesis/prune-depth-4", Cfg: hdr.Config{MaxBranchDepth: 2}, N: pick(6, 7), M: 2,
				Maint: []hdr.Op{{K: "cleand", D: 4}}, Slots: []string{"a", "H"}},
		)
		// stale side branches (tip deeper than the prune depth) with live branches forking from them:
		// built while the chain is short, then the best chain grows by several headers at once
		r = append(r,
			&Scenario{Name: "genesis/grow+growside-prune-depth-3", Cfg: hdr.Config{MaxBranchDepth: 2}, N: pick(5, 6), M: pick(1, 2), Grows: 1, GrowBy: 5, GrowSides: 1, GrowSideBy: 3,
				Maint: []hdr.Op{{K: "cleand", D: 3}}, Slots: []string{"a", "H"}},
			&Scenario{Name: "genesis/grow+growside-prune-depth-2", Cfg: hdr.Config{MaxBranchDepth: 1}, N: pick(5, 6), M: pick(1, 2), Grows: 1, GrowBy: 4, GrowSides: 1, GrowSideBy: 3,
				Maint: []hdr.Op{{K: "cleand", D: 2}}, Slots: []string{"a", "H"}},
		)
		for _, base := range bases(quick) {
			r = append(r, &Scenario{Name: baseName(base), Cfg: hdr.Config{MaxBranchDepth: 144, Base: base}, N: pick(3, 4), M: 2,
				Maint: []hdr.Op{opClean}, Attach: []int{0, -1, -2}, Slots: []string{"a", "H"}})
		}
		r = append(r, prunedFiles())
		// the automatic Clean inside ProcessHeader at heights that are multiples of 10000, with forks
		// and reorganisations pending around it
		boundaryBases := []int{9998}
		if !quick {
			boundaryBases = []int{9997, 9998}
		}
		for _, base := range boundaryBases {
			r = append(r, &Scenario{Name: baseName(base) + "/auto-clean-boundary", Cfg: hdr.Config{MaxBranchDepth: 144, Base: base}, N: pick(3, 5), M: 1,
				Maint: []hdr.Op{opClean}, Attach: []int{0, -1}, Slots: []string{"a", "H"}})
		}
		// a header marked invalid between two cleans (the chain is cut back in memory and regrows past
		// the heights that were already written to the header files), then pruning
		r = append(r, &Scenario{Name: "genesis/mark-between-cleans-prune-depth-2", Cfg: hdr.Config{MaxBranchDepth: 2}, N: pick(6, 7), M: 2, Marks: 1,
			Maint: []hdr.Op{{K: "cleand", D: 2}}, Slots: []string{"a", "H"}, OnlyTipParents: 2, MarkOnlyKnown: true})
		// a Clean whose 1st .. 6th storage call fails (a transient storage fault; the error is
		// returned): what the repository reports is the same as before, side branches stay
		// extendable, and a later Clean goes through
		{
			maint := []hdr.Op{{K: "cleand", D: 3}}
			for k := 1; k <= 6; k++ {
				maint = append(maint, hdr.Op{K: "cleand", D: 3, L: "fault" + itoa(k)})
			}
			r = append(r, &Scenario{Name: "genesis/clean-with-storage-fault-depth-3", Cfg: hdr.Config{MaxBranchDepth: 2}, N: pick(4, 5), M: 2,
				Maint: maint, Slots: []string{"a", "H"}})
		}
		for _, s := range r {
			s.oracles = []oracle{oracleC10, oracleC01, oracleC08verdict, oracleC09}
			// the lookup API is called after every operation of the history (a read must not influence
			// later answers: caches)
			s.Cfg.ObserveReads = true
		}
	case "C11":
		r = append(r,
			&Scenario{Name: "genesis/reload-anywhere", Cfg: hdr.Config{MaxBranchDepth: 144}, N: pick(5, 6), M: pick(2, 3),
				Maint: []hdr.Op{opReload, opClean, opSave}},
			&Scenario{Name: "genesis/initload", Cfg: hdr.Config{MaxBranchDepth: 144, InitLoad: true}, N: pick(5, 6), M: 2,
				Maint: []hdr.Op{opReload}},
			&Scenario{Name: "genesis/prune-depth-3", Cfg: hdr.Config{MaxBranchDepth: 2}, N: pick(6, 7), M: pick(2, 3),
				Maint: []hdr.Op{{K: "reloadd", D: 3}, {K: "cleand", D: 3}}, Slots: []string{"a", "H"}},
		)
		for _, base := range bases(quick) {
			r = append(r, &Scenario{Name: baseName(base), Cfg: hdr.Config{MaxBranchDepth: 144, Base: base}, N: pick(3, 4), M: 2,
				Maint: []hdr.Op{opReload}, Attach: []int{0, -1, -2}, Slots: []string{"a", "H"}})
		}
		r = append(r, fileBoundaryRestart())
		// the invalid list is part of what Save / Load carries over: marked, unmarked (also back to
		// an empty list) and re-offered around a reload
		r = append(r, &Scenario{Name: "genesis/mark-unmark+reload", Cfg: hdr.Config{MaxBranchDepth: 144}, N: pick(3, 4), Marks: 2, M: pick(1, 2),
			Maint: []hdr.Op{opReload}, Slots: []string{"a", "H"}})
		r = append(r, &Scenario{Name: "legacy-prefix-4/migrated-by-this-start", Cfg: hdr.Config{MaxBranchDepth: 144, LegacyPrefix: 4}, N: pick(3, 4), M: 2,
			Maint: []hdr.Op{opReload, opSave}, Slots: []string{"a", "H"}, Probes: true})
		// Load called again on a live instance (Save, then Load on the same value; twice)
		r = append(r, &Scenario{Name: "genesis/load-on-the-same-instance", Cfg: hdr.Config{MaxBranchDepth: 144}, N: pick(5, 6), M: 2,
			Maint: []hdr.Op{{K: "reload", L: "same-instance"}}, Slots: []string{"a", "H"}})
		// first start on empty storage and on legacy version-0 header files (Load migrates them), with
		// a configured invalid hash: the configuration must be in force from the first Load on
		r = append(r, &Scenario{Name: "genesis/initload+configured-invalid", Cfg: hdr.Config{MaxBranchDepth: 144, InitLoad: true, Invalid: []string{"G/a/a"}}, N: pick(4, 5), M: 2,
			Maint: []hdr.Op{opReload}, Probes: true})
		legacy := []int{1, 999, 1000}
		if !quick {
			legacy = []int{1, 998, 999, 1000, 2499}
		}
		for _, base := range legacy {
			r = append(r, &Scenario{Name: "legacy-files-" + itoa(base+1) + "-headers", Cfg: hdr.Config{MaxBranchDepth: 144, Base: base, Legacy: true, Invalid: []string{hdr.BaseLabel(base) + "/a"}},
				N: pick(3, 4), M: 2, Maint: []hdr.Op{opReload}, Attach: []int{0, -1}, Slots: []string{"a", "H"}, Probes: true})
		}
		// height is not work: a side branch of many light headers that is taller than the (heavier)
		// best chain by more than the restart keeps, next to a short side branch near the best tip
		r = append(r, &Scenario{Name: "genesis/tall-light-side-branch/restart-depth-3", Cfg: hdr.Config{MaxBranchDepth: 144}, N: 5, GrowXs: 1, GrowXBy: 6, M: 1,
			Maint: []hdr.Op{{K: "reloadd", D: 3}}, Slots: []string{"a", "b", "Q"}})
		// a small fork-depth limit with the full retained depth: side branches that end further below
		// the tip than new forks may start are still held, still extendable, and must come back
		r = append(r,
			&Scenario{Name: "genesis/reload-anywhere/maxdepth-1", Cfg: hdr.Config{MaxBranchDepth: 1}, N: pick(6, 7), M: 2,
				Maint: []hdr.Op{opReload, opSave}, Slots: []string{"a", "H"}},
			&Scenario{Name: "genesis/prune-depth-4/maxdepth-1", Cfg: hdr.Config{MaxBranchDepth: 1}, N: pick(6, 7), M: 2,
				Maint: []hdr.Op{{K: "reloadd", D: 4}, {K: "cleand", D: 4}}, Slots: []string{"a", "H"}})
		for _, s := range r {
			s.oracles = []oracle{oracleC11, oracleC01, oracleC08verdict}
		}
	case "C17":
		r = append(r,
			&Scenario{Name: "genesis/mark-unmark", Cfg: hdr.Config{MaxBranchDepth: 144}, N: pick(4, 5), Marks: 2, M: 1,
				Maint: []hdr.Op{opReload}, Slots: []string{"a", "H"}},
			&Scenario{Name: "genesis/mark+clean", Cfg: hdr.Config{MaxBranchDepth: 144}, N: pick(4, 5), Marks: pick(1, 2), M: 1,
				Maint: []hdr.Op{opClean}},
			&Scenario{Name: "genesis/configured-invalid", Cfg: hdr.Config{MaxBranchDepth: 144, Invalid: []string{"G/a/a"}}, N: pick(4, 5), Marks: 1, M: 1,
				Maint: []hdr.Op{opReload}, Slots: []string{"a", "H"}},
		)
		// a restart with a longer configured invalid list than the one persisted by the previous run
		r = append(r, &Scenario{Name: "genesis/invalid-list-extended-at-restart", Cfg: hdr.Config{MaxBranchDepth: 144, Invalid: []string{"G/a/a"}, InvalidLater: []string{"G/a/b", "G/b"}},
			N: pick(4, 5), M: 1, Maint: []hdr.Op{opReload}})
		// marking between two persistence operations: the trim has to reach the branch files
		r = append(r,
			&Scenario{Name: "genesis/save+mark+reload", Cfg: hdr.Config{MaxBranchDepth: 144}, N: pick(4, 5), Marks: 1, M: 2,
				Maint: []hdr.Op{opSave, opReload}, Slots: []string{"a", "H"}},
		)
		// marking on branches whose lower part has been pruned away (Clean / Load with a small depth):
		// the trim index is relative to the retained part
		r = append(r,
			&Scenario{Name: "genesis/mark-after-prune-depth-3", Cfg: hdr.Config{MaxBranchDepth: 2}, N: pick(4, 5), Marks: 1, M: 1, Grows: 1, GrowBy: 4,
				Maint: []hdr.Op{{K: "cleand", D: 3}, {K: "reloadd", D: 3}}, Slots: []string{"a", "H"}},
			&Scenario{Name: "genesis/mark-after-prune-depth-2", Cfg: hdr.Config{MaxBranchDepth: 1}, N: pick(4, 5), Marks: 1, M: 1, Grows: 1, GrowBy: 3,
				Maint: []hdr.Op{{K: "cleand", D: 2}, {K: "reloadd", D: 2}}, Slots: []string{"a", "H"}},
		)
		// the chain was migrated from legacy version-0 header files by this very start (no restart
		// since): marking, unmarking and resubmitting its headers
		r = append(r, &Scenario{Name: "legacy-prefix-4/mark-migrated-headers", Cfg: hdr.Config{MaxBranchDepth: 144, LegacyPrefix: 4}, N: pick(2, 3), Marks: 2, M: 1,
			Maint: []hdr.Op{opReload}, Slots: []string{"a", "H"}})
		// two marks on doubly nested forks (a branch of a branch next to an unrelated branch): the
		// order of the branch list matters to the sweep that removes descendants
		r = append(r, &Scenario{Name: "genesis/two-marks-nested-forks", Cfg: hdr.Config{MaxBranchDepth: 144}, N: 6, Marks: 2, MarkOnlyKnown: true,
			Slots: []string{"a", "b"}})
		// a first start on empty storage (through Load, as in production) with a configured list that
		// repeats a hash, or holds two: configured hashes are unmarked like any other, further hashes
		// are marked and unmarked, and every instance of the history is given the same configuration
		// value - what one instance does with the list it was handed must not reach the next one
		r = append(r,
			&Scenario{Name: "initload/configured-twice+unmark", Cfg: hdr.Config{MaxBranchDepth: 144, InitLoad: true, Invalid: []string{"G/a/a", "G/a/a"}},
				N: pick(3, 4), Marks: 2, M: 1, Maint: []hdr.Op{opReload}, Slots: []string{"a", "H"}, UnmarkConfigured: true},
			&Scenario{Name: "initload/configured-two+unmark+mark+unmark+restart", Cfg: hdr.Config{MaxBranchDepth: 144, InitLoad: true, Invalid: []string{"G/a/a", "G/a/b"}},
				N: pick(3, 4), Marks: 3, M: 1, Maint: []hdr.Op{opReload}, Slots: []string{"a", "b"}, UnmarkConfigured: true, OnlyTipParents: 2},
		)
		// two callers: a header is unmarked while a second caller marks another one, the second call
		// arriving inside the first one's write of the invalid list (both must take effect)
		r = append(r, &Scenario{Name: "genesis/unmark-with-a-concurrent-mark", Cfg: hdr.Config{MaxBranchDepth: 144}, N: pick(3, 4), Marks: 2, MarkOnlyKnown: true, MarkRaces: true, M: 1,
			Maint: []hdr.Op{opReload}, Slots: []string{"a", "H"}})
		for _, s := range r {
			s.oracles = []oracle{oracleC17, oracleC08verdict}
		}
	case "C18":
		r = append(r,
			&Scenario{Name: "genesis/forks+clean+reload", Cfg: hdr.Config{MaxBranchDepth: 144}, N: pick(4, 5), M: 1,
				Maint: []hdr.Op{opClean, opReload}},
			&Scenario{Name: "genesis/prune-depth-3", Cfg: hdr.Config{MaxBranchDepth: 2}, N: pick(5, 6), M: 1,
				Maint: []hdr.Op{{K: "cleand", D: 3}, {K: "reloadd", D: 3}}, Slots: []string{"a", "H"}},
		)
		for _, base := range bases(quick) {
			r = append(r, &Scenario{Name: baseName(base), Cfg: hdr.Config{MaxBranchDepth: 144, Base: base}, N: 2, M: 1,
				Maint: []hdr.Op{opClean}, Attach: []int{0, -1}, Slots: []string{"a", "H"}})
		}
		r = append(r, fileBoundaryRestart())
		// blocks that leave the best chain because a header below them is marked invalid
		r = append(r, &Scenario{Name: "genesis/mark-invalid", Cfg: hdr.Config{MaxBranchDepth: 144}, N: pick(4, 5), Marks: 1, M: 1,
			Maint: []hdr.Op{opClean}, Slots: []string{"a", "H"}})
		// the same followed by growth and pruning: the removed blocks' hashes lie below what the main
		// branch keeps in memory
		r = append(r, &Scenario{Name: "genesis/mark-invalid-then-prune-depth-2", Cfg: hdr.Config{MaxBranchDepth: 1}, N: pick(5, 6), Marks: 1, MarkOnlyKnown: true, M: 1,
			Maint: []hdr.Op{{K: "cleand", D: 2}}, Slots: []string{"a", "H"}, OnlyTipParents: 2})
		r = append(r, &Scenario{Name: "genesis/two-prunes-depth-2", Cfg: hdr.Config{MaxBranchDepth: 1}, N: pick(5, 6), M: 2,
			Maint: []hdr.Op{{K: "cleand", D: 2}}, Slots: []string{"a", "H"}, OnlyTipParents: 2})
		r = append(r, &Scenario{Name: "genesis/grow-prune-grow-prune-depth-2", Cfg: hdr.Config{MaxBranchDepth: 1}, N: 2, M: 2, Grows: 2, GrowBy: 4,
			Maint: []hdr.Op{{K: "cleand", D: 2}}, Slots: []string{"a", "H"}, OnlyTipParents: 2})
		for _, s := range r {
			s.oracles = []oracle{oracleC18}
			// the lookup API is called after every operation of the history (a read must not influence
			// later answers: caches)
			s.Cfg.ObserveReads = true
		}
	case "C19":
		r = append(r,
			&Scenario{Name: "genesis/no-splits", Cfg: hdr.Config{MaxBranchDepth: 144}, N: pick(6, 7), M: 1,
				Maint: []hdr.Op{opClean, opReload}},
			&Scenario{Name: "genesis/synthetic-splits", Cfg: hdr.Config{MaxBranchDepth: 144, Splits: "synth"}, N: pick(6, 7), M: 1,
				Maint: []hdr.Op{opClean}},
			&Scenario{Name: "genesis/prune-depth-3", Cfg: hdr.Config{MaxBranchDepth: 2, Splits: "synth"}, N: pick(6, 7), M: 1,
				Maint: []hdr.Op{{K: "cleand", D: 3}, {K: "reloadd", D: 3}}, Slots: []string{"a", "H"}},
		)
		for _, base := range bases(quick) {
			r = append(r, &Scenario{Name: baseName(base), Cfg: hdr.Config{MaxBranchDepth: 144, Base: base}, N: 2, M: 1,
				Maint: []hdr.Op{opClean}, Attach: []int{0, -1}, Slots: []string{"a", "H"}})
		}
		// taller chains above the synthetic split heights (2 and 3): the locator's back-off loop only
		// runs more than once above height ~6, and split fork points are inserted inside it
		for _, p := range []int{8, 11, 14, 19, 30} {
			r = append(r, &Scenario{Name: "synthetic-splits/prefix-" + itoa(p), Cfg: hdr.Config{MaxBranchDepth: 144, Splits: "synth", Prefix: p},
				N: pick(2, 3), M: 1, Maint: []hdr.Op{opClean}, Slots: []string{"a", "H"}})
		}
		// split heights 20/21: tips from just above the splits up to 24 above them, so that the
		// fork points are inserted in the first, second or third step of the back-off loop
		var tall []int
		for p := 21; p <= pick(48, 70); p++ {
			tall = append(tall, p)
		}
		for _, p := range tall {
			r = append(r, &Scenario{Name: "splits-at-20-21/prefix-" + itoa(p), Cfg: hdr.Config{MaxBranchDepth: 144, Splits: "synth20", Prefix: p},
				N: pick(1, 2), M: 1, Maint: []hdr.Op{opClean}, Attach: nil, Slots: []string{"a", "H"}, OnlyTipParents: 3})
		}
		// a side branch removed while the tip stays where it is (marked invalid): what the locator
		// said before must not be what it says afterwards
		r = append(r, &Scenario{Name: "genesis/mark-side-branch", Cfg: hdr.Config{MaxBranchDepth: 144}, N: pick(4, 5), Marks: 1, M: 1,
			Maint: []hdr.Op{opClean}})
		// the best chain ends in a branch that has not been consolidated yet (a reorganisation with no
		// Clean since), for every length 2..22 of that branch and several fork heights: the back-off
		// steps of the locator land on the branch's first header, just above and just below it
		for d := 1; d <= pick(21, 40); d++ {
			r = append(r, &Scenario{Name: "reorg-lengths/new-branch-of-" + itoa(d+1), Cfg: hdr.Config{MaxBranchDepth: 144, Prefix: 6}, N: 1, GrowSides: 1, GrowSideBy: d,
				M: 1, Maint: []hdr.Op{opClean}, Slots: []string{"a", "H"}, OnlyTipParents: 4})
		}
		for _, s := range r {
			// (the locator describes the best chain: the tip it starts from has to be the most-work tip
			// of the reference tree, not merely whatever the repository reports - oracleC01)
			s.oracles = []oracle{oracleC01, oracleC19} // C01 first: the C19 oracle ends with submissions of simulated peer replies
			// locators are requested after every operation of the history (peers are polled between
			// events), not only in the state under examination
			s.Cfg.ObserveLocators = true
		}
	case "C03":
		r = append(r,
			&Scenario{Name: "synthetic-splits/depth-144", Cfg: hdr.Config{MaxBranchDepth: 144, Splits: "synth"}, N: pick(6, 7), M: 1,
				Maint: []hdr.Op{opClean, opReload}, Probes: true},
			&Scenario{Name: "synthetic-splits/depth-2", Cfg: hdr.Config{MaxBranchDepth: 2, Splits: "synth"}, N: pick(6, 7), M: 1,
				Maint: []hdr.Op{opClean}, Probes: true},
		)
		// the chain has grown past the split heights and the headers around them are pruned from
		// memory (Clean / restart keeping 2 or 3 headers): the foreign split headers - whose parents
		// are then known only by height - are still refused as wrong chain
		r = append(r,
			&Scenario{Name: "synthetic-splits/grown+pruned-depth-2", Cfg: hdr.Config{MaxBranchDepth: 1, Splits: "synth"}, N: pick(3, 4), M: 1, Grows: 1, GrowBy: 5,
				Maint: []hdr.Op{{K: "cleand", D: 2}, {K: "reloadd", D: 2}}, Slots: []string{"a", "b"}},
			&Scenario{Name: "synthetic-splits/grown+pruned-depth-3", Cfg: hdr.Config{MaxBranchDepth: 2, Splits: "synth"}, N: pick(3, 4), M: 1, Grows: 1, GrowBy: 5,
				Maint: []hdr.Op{{K: "cleand", D: 3}, {K: "reloadd", D: 3}}, Slots: []string{"a", "b"}},
		)
		for _, s := range r {
			s.oracles = []oracle{oracleC03repo, oracleC08verdict, oracleC01}
			s.ForeignProbes = true
		}
	case "C12":
		// a reorganisation across a header-file boundary (fork below height 1000 of a saved chain of
		// 1005 headers overtakes it), saved, with a stop at every storage call
		// the same with a fork of fewer but much heavier headers: the best chain moves to a lower
		// height, back below the file boundary (Save then removes the file above)
		r = append(r, &Scenario{Name: "base-1005/reorg-to-a-lower-height-across-file-boundary", Cfg: hdr.Config{MaxBranchDepth: 144, Base: 1005}, N: 3, M: 1,
			Maint: []hdr.Op{opSave, opClean}, Attach: []int{-10}, Slots: []string{"Q"}, OnlyTipParents: 1})
		r = append(r, &Scenario{Name: "base-1005/reorg-across-file-boundary", Cfg: hdr.Config{MaxBranchDepth: 144, Base: 1005}, N: 1, M: 1, GrowSides: 1, GrowSideBy: 6,
			Maint: []hdr.Op{opSave, opClean}, Attach: []int{-10}, Slots: []string{"H"}})
		r = append(r,
			&Scenario{Name: "genesis/crash-in-clean-save", Cfg: hdr.Config{MaxBranchDepth: 144}, N: pick(5, 6), M: pick(2, 3),
				Maint: []hdr.Op{opClean, opSave, opReload}},
			&Scenario{Name: "genesis/prune-depth-3", Cfg: hdr.Config{MaxBranchDepth: 2}, N: pick(5, 6), M: 2,
				Maint: []hdr.Op{{K: "cleand", D: 3}, opSave}, Slots: []string{"a", "H"}},
		)
		for _, base := range bases(quick) {
			r = append(r, &Scenario{Name: baseName(base), Cfg: hdr.Config{MaxBranchDepth: 144, Base: base}, N: pick(2, 3), M: 2,
				Maint: []hdr.Op{opClean, opSave}, Attach: []int{0, -1}, Slots: []string{"a", "H"}})
		}
		// three branches need six headers before a stop can separate them: a main chain, a side
		// branch from below and one from above, a completed Save, then the lower one overtaking and
		// the upper one tying it
		r = append(r, &Scenario{Name: "prefix-2/crash-in-clean-save/4-more-headers", Cfg: hdr.Config{MaxBranchDepth: 144, Prefix: 2}, N: 4, M: 2,
			Maint: []hdr.Op{opClean, opSave}})
		// a header of the saved chain is marked invalid before the next Save / Clean: what the old
		// index still lists can then be heavier than everything that is left
		r = append(r, &Scenario{Name: "genesis/crash-in-clean-save-after-mark", Cfg: hdr.Config{MaxBranchDepth: 144}, N: pick(4, 5), Marks: 1, MarkOnlyKnown: true, M: 2,
			Maint: []hdr.Op{opClean, opSave}})
		// the same with six headers over two unit-work slots: a branch of a side branch next to the
		// marked chain (what the old index lists after the stop hangs off a branch that is dropped)
		r = append(r, &Scenario{Name: "genesis/crash-in-clean-save-after-mark/6-headers-slots-a-b", Cfg: hdr.Config{MaxBranchDepth: 144}, N: 6, Marks: 1, MarkOnlyKnown: true, M: 2,
			Maint: []hdr.Op{opClean, opSave}, Slots: []string{"a", "b"}})
		for _, s := range r {
			s.oracles = []oracle{oracleC12}
		}
	}
	for _, s := range r {
		if s.MaxTime == 0 {
			if quick {
				s.MaxTime = 60 * time.Second
			} else {
				s.MaxTime = 10 * time.Minute
			}
		}
	}
	return r
}

// prunedFiles: a chain of 2003 headers whose memory is reduced to the last few (scaled retained depth
// 3) by Clean or by a restart: two complete header files lie entirely in pruned history, so range
// and height queries cross a file boundary below everything held in memory.
func prunedFiles() *Scenario {
	return &Scenario{Name: "base-2003/two-pruned-header-files", Cfg: hdr.Config{MaxBranchDepth: 144, Base: 2003}, N: 1, M: 1,
		Maint: []hdr.Op{{K: "cleand", D: 3}, {K: "reloadd", D: 3}}, Attach: []int{0}, Slots: []string{"a"}}
}

// fileBoundaryRestart: restarts (Save + Load with a scaled retained depth of 2 or 3) of a chain of
// 1002-1004 headers, so that the lowest height kept in memory falls on, just below and just above
// the first header of a header file (height 1000).
func fileBoundaryRestart() *Scenario {
	return &Scenario{Name: "base-1002/restart-on-file-boundary", Cfg: hdr.Config{MaxBranchDepth: 144, Base: 1002}, N: 2, M: 1,
		Maint: []hdr.Op{{K: "reloadd", D: 2}, {K: "reloadd", D: 3}}, Attach: []int{0}, Slots: []string{"a"}}
}

func bases(quick bool) []int {
	if quick {
		return []int{999, 1000, 1001}
	}
	return []int{998, 999, 1000, 1001, 1002, 9999, 10000, 10001, 19999, 20000, 20001}
}

func baseName(n int) string {
	return "base-" + itoa(n)
}

func itoa(n int) string {
	if n == 0 {
		return "0"
	}
	s := ""
	for n > 0 {
		s = string(rune('0'+n%10)) + s
		n /= 10
	}
	return s
}
