package main

import (
	"fmt"
	"math/big"
	"regexp"
	"strings"

	"verif/hdr"
	"verif/mc"
	"verif/ref"

	"github.com/tokenized/pkg/bitcoin"
	"github.com/tokenized/pkg/wire"
)

var (
	reHex = regexp.MustCompile(`[0-9a-f]{16,}`)
	reNum = regexp.MustCompile(`[0-9]+`)
)

// normalize strips hashes and numbers from an error text so it can serve as a structural class.
func normalize(s string) string {
	s = reHex.ReplaceAllString(s, "#")
	s = reNum.ReplaceAllString(s, "N")
	s = strings.ReplaceAll(s, " ", "_")
	if len(s) > 120 {
		s = s[:120]
	}
	return s
}

func opClass(st *hdr.Step) string {
	if st == nil {
		return "init"
	}
	c := st.Op.K
	if st.Op.K == "sub" {
		c += ":" + normalize(st.Class)
	} else if st.Err != "" {
		c += ":err:" + normalize(st.Err)
	}
	return c
}

type checker struct {
	prop     string
	w        *hdr.World
	st       *hdr.Step
	hist     []hdr.Op
	vs       []mc.Violation
	n        int
	sc       *Scenario
	op       *hdr.Op        // the operation about to be / just applied
	pre      map[string]any // values captured by pre-oracles
	counters map[string]int
}

func (c *checker) count(k string, n int) {
	if c.counters == nil {
		c.counters = map[string]int{}
	}
	c.counters[k] += n
}

func (c *checker) fail(clause, fp, detail string) {
	c.vs = append(c.vs, mc.Violation{Prop: c.prop, Clause: clause,
		Fingerprint: clause + "|" + fp, Detail: detail, History: c.hist, Config: c.w.Cfg})
}

// heightsToCheck lists the heights at which per-height lookups are compared. Small worlds: all.
// Base worlds: a window below the base tip up to the tip plus file / prune boundaries.
func heightsToCheck(w *hdr.World, tip int) []int {
	if w.Cfg.Base == 0 {
		r := make([]int, 0, tip+1)
		for h := 0; h <= tip; h++ {
			r = append(r, h)
		}
		return r
	}
	set := map[int]bool{}
	add := func(h int) {
		if h >= 0 && h <= tip {
			set[h] = true
		}
	}
	for h := w.Cfg.Base - 8; h <= tip; h++ {
		add(h)
	}
	for _, b := range []int{0, 1, 2, 999, 1000, 1001, 1999, 2000, 2001, 9999, 10000, 10001, 19999, 20000} {
		add(b)
	}
	for h := tip - 10002; h <= tip-9998; h++ {
		add(h)
	}
	var r []int
	for h := 0; h <= tip; h++ {
		if set[h] {
			r = append(r, h)
		}
	}
	return r
}

// common clauses shared by all header properties: no panic, no model anomaly.
func (c *checker) basics() bool {
	if c.st != nil && c.st.Panic != "" {
		c.fail("panic", opClass(c.st)+"|"+normalize(c.st.Panic), "operation "+c.st.Op.String()+" panicked: "+c.st.Panic)
		return false
	}
	if c.st != nil && c.st.Err != "" && strings.HasPrefix(c.st.Op.L, "fault") && strings.Contains(c.st.Err, "injected") {
		// a Clean whose storage call was made to fail returns that error; what the repository reports
		// afterwards is examined like after any other operation
	} else if c.st != nil && c.st.Err != "" {
		switch c.st.Op.K {
		case "clean", "cleand", "save", "reload", "reloadd":
			// maintenance on storage that never fails has no reason to fail: every property that is
			// stated over Clean / Save / Load presupposes that they go through
			c.fail("maintenance-error", c.st.Op.K+"|"+normalize(c.st.Err), "operation "+c.st.Op.String()+" returned "+c.st.Err)
			return false
		}
	}
	return true
}

// tipNode validates the reported tip triple against the model and returns the model node.
func (c *checker) tipNode(requireMax bool) *ref.Node {
	w := c.w
	var height int
	var last bitcoin.Hash32
	var work *big.Int
	_, p := hdr.Safe(func() error {
		height = w.Repo.Height()
		last = w.Repo.LastHash()
		work = w.Repo.AccumulatedWork()
		return nil
	})
	c.n++
	if p != "" {
		c.fail("tip-panic", opClass(c.st), "reading the tip panicked: "+p)
		return nil
	}
	t := w.Tree.Get(hdr.RH(last))
	if t == nil {
		c.fail("tip-not-accepted", opClass(c.st), fmt.Sprintf("reported tip %s (height %d) is not an accepted header", last, height))
		return nil
	}
	if t.Excluded() {
		c.fail("tip-excluded", opClass(c.st), "reported tip "+t.Label+" is marked invalid or built on a marked header")
		return nil
	}
	if t.Height != height {
		c.fail("tip-height", opClass(c.st), fmt.Sprintf("tip %s reported at height %d, true height %d", t.Label, height, t.Height))
		return nil
	}
	if t.Work.Cmp(work) != 0 {
		c.fail("tip-work", opClass(c.st), fmt.Sprintf("tip %s reported work %s, model %s", t.Label, work.Text(16), t.Work.Text(16)))
		return nil
	}
	if requireMax {
		// a side chain that forks from the reported chain below the prune floor may have been dropped
		// from memory, so only chains that are certainly retained are demanded (this matters when
		// marking a header invalid makes the best chain fall back)
		var best []*ref.Node
		all := w.Tree.Sorted()
		if w.Tree.SharedTip != nil {
			all = append([]*ref.Node{w.Tree.SharedTip}, all...)
		}
		for _, n := range all {
			// a header the repository accepted (or made known) after the latest prune is held by its
			// own answer, wherever it hangs
			if n.Excluded() || (!retainedNode(w, t, n) && !(w.Pruned && n.Seq > w.SeqAtPrune)) {
				continue
			}
			if len(best) == 0 || n.Work.Cmp(best[0].Work) > 0 {
				best = []*ref.Node{n}
			}
		}
		if len(best) > 0 && t.Work.Cmp(best[0].Work) < 0 {
			c.fail("tip-not-max", opClass(c.st), fmt.Sprintf("reported tip %s (work %s) but accepted header %s has more work (%s)",
				t.Label, t.Work.Text(16), best[0].Label, best[0].Work.Text(16)))
			return nil
		}
	}
	return t
}

// chainByHeight checks Hash(h)/Header(h) for the selected heights against the ancestry of t.
func (c *checker) chainByHeight(t *ref.Node) {
	w := c.w
	for _, h := range heightsToCheck(w, t.Height) {
		want := t.AncestorAt(h)
		var hash *bitcoin.Hash32
		var header *wire.BlockHeader
		var err1, err2 error
		_, p := hdr.Safe(func() error {
			hash, err1 = w.Repo.Hash(w.Ctx, h)
			header, err2 = w.Repo.Header(w.Ctx, h)
			return nil
		})
		c.n += 2
		if p != "" {
			c.fail("height-lookup-panic", opClass(c.st), fmt.Sprintf("Hash/Header(%d) panicked: %s", h, p))
			return
		}
		if err1 != nil || hash == nil {
			c.fail("hash-at-height-error", opClass(c.st)+"|"+normalize(fmt.Sprint(err1)), fmt.Sprintf("Hash(%d) of tip %s (height %d): %v", h, t.Label, t.Height, err1))
			return
		}
		if hdr.RH(*hash) != want.Hash {
			got := "unaccepted"
			if g := w.Tree.Get(hdr.RH(*hash)); g != nil {
				got = g.Label
			}
			c.fail("hash-at-height", opClass(c.st), fmt.Sprintf("Hash(%d) = %s (%s), ancestry of tip %s has %s", h, hash, got, t.Label, want.Label))
			return
		}
		if err2 != nil || header == nil {
			c.fail("header-at-height-error", opClass(c.st)+"|"+normalize(fmt.Sprint(err2)), fmt.Sprintf("Header(%d): %v", h, err2))
			return
		}
		if hdr.RH(*header.BlockHash()) != want.Hash {
			c.fail("header-at-height", opClass(c.st), fmt.Sprintf("Header(%d) hashes to %s, ancestry of tip %s has %s", h, header.BlockHash(), t.Label, want.Label))
			return
		}
		if want.Parent != nil && hdr.RH(header.PrevBlock) != want.Parent.Hash {
			c.fail("header-link", opClass(c.st), fmt.Sprintf("Header(%d).PrevBlock is not the hash one height below", h))
			return
		}
	}
	// one above the tip must be refused
	var err error
	hdr.Safe(func() error { _, err = w.Repo.Hash(w.Ctx, t.Height+1); return nil })
	c.n++
	if err == nil {
		c.fail("hash-above-tip", opClass(c.st), "Hash(tip+1) returned no error")
	}
}

// oracleC01: the reported chain is the most-work chain of accepted headers.
var oracleC01 = oracle{post: postC01}

func postC01(c *checker) {
	if !c.basics() {
		return
	}
	for _, a := range c.w.Anomalies {
		c.fail("model-anomaly", normalize(a), a)
		return
	}
	t := c.tipNode(true)
	if t == nil {
		return
	}
	c.chainByHeight(t)
}
