package main

import (
	"context"
	"encoding/json"
	"fmt"
	"math/big"
	"os"

	"verif/hdr"
	"verif/mc"
	"verif/vstore"

	"github.com/pkg/errors"
	"github.com/tokenized/bitcoin_reader/headers"
	"github.com/tokenized/logger"
	"github.com/tokenized/pkg/bitcoin"
	"github.com/tokenized/pkg/wire"
)

// oracleC03repo (synthetic split table): no header other than the required one is ever held at
// the required split height, foreign split headers are never held, on any branch.
var oracleC03repo = oracle{post: func(c *checker) {
	if !c.basics() {
		return
	}
	w := c.w
	for _, n := range w.Tree.Sorted() {
		c.n++
		if n.Height == 3 && n.Label != hdr.SynthReqAfter {
			c.fail("non-required-header-at-split-height", opClass(c.st), "header "+n.Label+" was accepted at the required split height")
			return
		}
		if n.Label == hdr.SynthF2After || n.Label == hdr.SynthF3After {
			c.fail("foreign-split-header-accepted", opClass(c.st), "foreign split header "+n.Label+" was accepted")
			return
		}
	}
	// the best chain at the split height is the required header (when it is that high)
	hdr.Safe(func() error {
		if w.Repo.Height() >= 3 {
			h, err := w.Repo.Hash(w.Ctx, 3)
			c.n++
			if err == nil && h != nil && *h != hdr.Get(hdr.SynthReqAfter).Hash {
				c.fail("best-chain-wrong-header-at-split-height", opClass(c.st), "the best chain holds another header than the required one at the split height")
			}
		}
		return nil
	})
	if c.st != nil && c.st.Op.K == "sub" {
		l := c.st.Op.L
		if (l == hdr.SynthF2After || l == hdr.SynthF3After) && c.st.Class != hdr.VWrong {
			c.fail("foreign-split-header-verdict", normalize(c.st.Class), fmt.Sprintf("foreign split header %s answered %q, not wrong-chain", l, c.st.Class))
		}
	}
}}

func hash32(s string) bitcoin.Hash32 {
	h, err := bitcoin.NewHash32FromStr(s)
	if err != nil {
		panic(err)
	}
	return *h
}

// otherNetworkFirst creates a repository configured for another network (called before anything else
// in a C03 run).
func otherNetworkFirst() {
	headers.NewRepository(&headers.Config{Network: bitcoin.TestNet, MaxBranchDepth: 144}, vstore.New())
}

// realSplitPart: the real mainnet split table, on the real chain around height 556767.
func realSplitPart() (vs []mc.Violation, evaluations int, samples []any) {
	ctx := logger.ContextWithNoLogger(context.Background())
	fail := func(clause, detail string) {
		vs = append(vs, mc.Violation{Prop: "C03", Clause: clause, Fingerprint: clause, Detail: detail})
	}
	root := os.Getenv("VERIF_REPO")
	if root == "" {
		root = "/repo"
	}
	data, err := os.ReadFile(root + "/headers/test_fixtures/headers_556000.txt")
	if err != nil {
		fail("fixture", err.Error())
		return
	}
	var hs []*wire.BlockHeader
	if err := json.Unmarshal(data, &hs); err != nil {
		fail("fixture", err.Error())
		return
	}
	bsv := headers.MainNetRequiredHeader
	bch := &wire.BlockHeader{Version: 0x20000000, PrevBlock: *hs[766].BlockHash(),
		MerkleRoot: hash32("1cf31105bd6b1b4dba9ae55290ec06fff15b4567ec62a6e3863409bb3efd1944"),
		Timestamp:  1542304936, Bits: 402792411, Nonce: 3911120513}
	// published constants
	const (
		bsvHash   = "000000000000000001d956714215d96ffc00e0afda4cd0a96c96f8d802b1662b"
		bchHash   = "0000000000000000004626ff6e3b936941d341c5932ece4357eeccac44e6d56c"
		beforeBCH = "00000000000000000102d94fde9bd0807a2cc7582fe85dd6349b73ce4e8d9322"
		beforeBTC = "0000000000000000011865af4122fe3b144e2cbeea86142e8ff2fb4107352d43"
	)
	evaluations++
	if bsv.BlockHash().String() != bsvHash || bch.BlockHash().String() != bchHash || hs[767].BlockHash().String() != bsvHash || hs[766].BlockHash().String() != beforeBCH {
		fail("split-constants", "the BSV/BCH split headers do not hash to the published values")
		return
	}
	// a repository of another network was created in this process before the mainnet ones (a process
	// that follows testnet and mainnet, or a test binary): the mainnet repositories below must have
	// the mainnet split table all the same
	other := headers.NewRepository(&headers.Config{Network: bitcoin.TestNet, MaxBranchDepth: 144}, vstore.New())
	if err := other.VerifyHeader(ctx, bsv); err == nil {
		fail("other-network-verifies-bsv", "a repository configured for testnet accepts the mainnet BSV split header as proof of its chain")
	}
	build := func(upTo int) *headers.Repository {
		repo := headers.NewRepository(headers.DefaultConfig(), vstore.New())
		repo.DisableDifficulty()
		work, _ := new(big.Int).SetString("d167cf38dd7a9c078a40d5", 16)
		repo.MockLatest(ctx, hs[0], 556000, work)
		for i := 1; i <= upTo; i++ {
			if err := repo.ProcessHeader(ctx, hs[i]); err != nil {
				fail("real-chain-refused", fmt.Sprintf("real header %d: %v", 556000+i, err))
				return nil
			}
		}
		return repo
	}
	arbitrary := func(prev bitcoin.Hash32, nonce uint32) *wire.BlockHeader {
		return &wire.BlockHeader{Version: 1, PrevBlock: prev, Timestamp: 1542300000 + nonce, Bits: 0x18021fdb, Nonce: nonce}
	}
	// verify-only locator holds exactly the published fork points, once each
	{
		repo := build(0)
		loc, _ := repo.GetVerifyOnlyLocatorHashes(ctx)
		evaluations++
		want := map[string]bool{beforeBCH: true, beforeBTC: true}
		for _, h := range loc {
			if !want[h.String()] {
				fail("verify-locator", "verify-only locator holds "+h.String()+" (not a published fork point, or repeated)")
			}
			delete(want, h.String())
		}
		if len(want) != 0 {
			fail("verify-locator", "verify-only locator misses a published fork point")
		}
		// VerifyHeader: only the BSV split header is accepted
		for name, h := range map[string]*wire.BlockHeader{"bsv": bsv, "bch": bch, "real-556768": hs[768], "arbitrary": arbitrary(*hs[766].BlockHash(), 1)} {
			err := repo.VerifyHeader(ctx, h)
			evaluations++
			if (err == nil) != (name == "bsv") {
				fail("verify-header", fmt.Sprintf("VerifyHeader(%s) = %v", name, err))
			}
			if name == "bch" && errors.Cause(err) != headers.ErrWrongChain {
				fail("verify-header-class", fmt.Sprintf("VerifyHeader(bch) = %v, want wrong chain", err))
			}
		}
		// unknown-parent offers of the split headers
		fresh := headers.NewRepository(headers.DefaultConfig(), vstore.New())
		fresh.DisableDifficulty()
		fresh.InitializeWithGenesis()
		evaluations += 2
		if err := fresh.ProcessHeader(ctx, bch); errors.Cause(err) != headers.ErrWrongChain {
			fail("bch-unknown-parent", fmt.Sprintf("BCH split header offered with unknown parent: %v, want wrong chain", err))
		}
		if err := fresh.ProcessHeader(ctx, bsv); err == nil || fresh.HashHeight(*bsv.BlockHash()) != -1 {
			fail("bsv-unknown-parent", "BSV split header with unknown parent was accepted")
		}
	}
	// offers at the split height on the main chain and on forks started below it
	type offer struct {
		name string
		h    func(parent bitcoin.Hash32) *wire.BlockHeader
		want string // "ok" or "wrong-chain"
	}
	for _, forkAt := range []int{-1, 764, 765, 766} {
		repo := build(766)
		if repo == nil {
			return
		}
		parent := *hs[766].BlockHash()
		desc := "main chain"
		if forkAt >= 0 {
			// fork branch: arbitrary headers from height 556000+forkAt+1 up to 556766
			desc = fmt.Sprintf("fork started at %d", 556000+forkAt+1)
			parent = *hs[forkAt].BlockHash()
			for k := forkAt + 1; k <= 766; k++ {
				h := arbitrary(parent, uint32(1000+k))
				if err := repo.ProcessHeader(ctx, h); err != nil {
					fail("fork-build", fmt.Sprintf("%s: fork header at %d refused: %v", desc, 556000+k, err))
					return
				}
				parent = *h.BlockHash()
			}
		}
		offers := []offer{
			{"arbitrary", func(p bitcoin.Hash32) *wire.BlockHeader { return arbitrary(p, 5) }, "wrong-chain"},
			{"arbitrary-2", func(p bitcoin.Hash32) *wire.BlockHeader { return arbitrary(p, 6) }, "wrong-chain"},
		}
		if forkAt < 0 {
			offers = append(offers, offer{"bch", func(bitcoin.Hash32) *wire.BlockHeader { return bch }, "wrong-chain"},
				offer{"bsv", func(bitcoin.Hash32) *wire.BlockHeader { return bsv }, "ok"})
		}
		for _, of := range offers {
			h := of.h(parent)
			err := repo.ProcessHeader(ctx, h)
			evaluations++
			got := "ok"
			if err != nil {
				got = "refused"
				if errors.Cause(err) == headers.ErrWrongChain {
					got = "wrong-chain"
				}
			}
			samples = append(samples, map[string]any{"part": "real-split-table", "where": desc, "offered": of.name, "answer": got})
			if got != of.want {
				fail("split-height-offer", fmt.Sprintf("%s: header '%s' offered at height 556767 answered %q (%v), want %s", desc, of.name, got, err, of.want))
			}
			if of.want != "ok" && repo.HashHeight(*h.BlockHash()) != -1 {
				fail("split-height-held", fmt.Sprintf("%s: refused header '%s' is held at height 556767", desc, of.name))
			}
		}
		// after the BSV header the chain continues with the real headers
		if forkAt < 0 {
			for i := 768; i < 800; i++ {
				evaluations++
				if err := repo.ProcessHeader(ctx, hs[i]); err != nil {
					fail("real-chain-after-split", fmt.Sprintf("real header %d refused: %v", 556000+i, err))
					break
				}
			}
			h, _ := repo.Hash(ctx, 556767)
			if h == nil || h.String() != bsvHash {
				fail("best-chain-at-split", "the best chain does not hold the BSV split header at 556767")
			}
		}
	}
	return
}
