package main

import (
	"fmt"
	"math/big"
	"strings"
	"sync"

	"verif/hdr"
	"verif/ref"
	"verif/vstore"

	"github.com/pkg/errors"
	"github.com/tokenized/bitcoin_reader/headers"
	"github.com/tokenized/pkg/bitcoin"
	"github.com/tokenized/pkg/wire"
)

// ---------------------------------------------------------------------------------------------
// C07: the new-header stream reconstructs the best chain.

var oracleC07 = oracle{
	pre: func(c *checker) {
		c.pre["subs"] = len(c.w.Subs)
	},
	post: func(c *checker) {
		if !c.basics() || c.st == nil {
			return
		}
		w, st := c.w, c.st
		if st.Op.K == "subscribe" || st.Op.K == "reload" || st.Op.K == "reloadd" {
			return
		}
		pre := w.Tree.Get(hdr.RH(st.PreTip))
		post := c.tipNode(false)
		if post == nil {
			return
		}
		if pre == nil {
			c.fail("pre-tip-not-accepted", opClass(st), "the tip before the operation is not an accepted header")
			return
		}
		// expected batch: headers of the new best chain above the fork point with the old one
		var want []ref.Hash
		if pre != post {
			f := ref.ForkPoint(pre, post)
			for n := post; n != nil && n != f; n = n.Parent {
				want = append([]ref.Hash{n.Hash}, want...)
			}
		}
		// (grow / growside / growx submit several headers: what they announce in total is again the
		// new best chain above the fork point with the chain reported before)
		if st.Op.K != "sub" && st.Op.K != "growlag" && st.Op.K != "fullrace" && st.Op.K != "grow" && st.Op.K != "growside" && st.Op.K != "growx" && len(want) != 0 {
			c.fail("maintenance-changed-tip", opClass(st), "a maintenance operation changed the reported tip")
			return
		}
		for i, batch := range st.Batches {
			c.n++
			ok := len(batch) == len(want)
			for j := 0; ok && j < len(want); j++ {
				ok = hdr.RH(batch[j]) == want[j]
			}
			if st.Op.K == "fullrace" {
				// several submissions with reorganisations in between: the batch is not one diff; what
				// counts is that applying it rebuilds the reported chain (below)
				ok = true
			}
			if !ok {
				kind := "extension"
				if pre != post && post.Parent != pre {
					kind = "reorg"
				} else if pre == post {
					kind = "no-change"
				}
				c.fail("stream-batch", opClass(st)+"|"+kind+fmt.Sprintf("|got%d-want%d", len(batch), len(want)),
					fmt.Sprintf("subscriber %d received %s, expected %s (best chain %s -> %s)", i, clipList(labels(w, batch)), clipList(labelsRef(w, want)), pre.Label, post.Label))
				return
			}
			s := w.Subs[i]
			if s.Bad != "" {
				c.fail("stream-replay-attach", opClass(st), s.Bad)
				return
			}
			rep := w.ReportedChain()
			same := len(rep) == len(s.Chain)
			for j := 0; same && j < len(rep); j++ {
				same = rep[j] == s.Chain[j]
			}
			c.n++
			if !same {
				c.fail("stream-replay-chain", opClass(st), fmt.Sprintf("chain rebuilt from the stream %s differs from the reported chain %s", clipList(labels(w, s.Chain)), clipList(labels(w, rep))))
				return
			}
		}
	},
}

// clipList keeps the two ends of a long rendered list.
func clipList(s string) string {
	if len(s) <= 400 {
		return s
	}
	return s[:180] + " ... " + s[len(s)-180:]
}

func labels(w *hdr.World, hs []bitcoin.Hash32) string {
	s := make([]string, len(hs))
	for i, h := range hs {
		if n := w.Tree.Get(hdr.RH(h)); n != nil {
			s[i] = n.Label
		} else {
			s[i] = h.String()[:8]
		}
	}
	return "[" + strings.Join(s, " ") + "]"
}

func labelsRef(w *hdr.World, hs []ref.Hash) string {
	s := make([]string, len(hs))
	for i, h := range hs {
		if n := w.Tree.Get(h); n != nil {
			s[i] = n.Label
		}
	}
	return "[" + strings.Join(s, " ") + "]"
}

// ---------------------------------------------------------------------------------------------
// C08: reference verdict; a refusal changes nothing.

// allowedVerdicts computes, in the state before the submission, the set of verdict classes the
// statement allows. must==true: the set is binding; false: unspecified (outside retained window).
func allowedVerdicts(w *hdr.World, op hdr.Op) (allowed map[string]bool, binding bool, why string) {
	u := hdr.Get(op.L)
	allowed = map[string]bool{}
	if op.K == "subw" {
		// proof-of-work checking on: universe headers never meet their target
		target, _ := ref.DecodeCompact(u.Header.Bits)
		if u.Hash.Value().Cmp(target) > 0 {
			return map[string]bool{hdr.VWork: true}, true, "hash above target"
		}
	}
	best := 0
	if tips := w.Tree.BestTips(); len(tips) > 0 {
		best = tips[0].Height
	}
	hdr.Safe(func() error { best = w.Repo.Height(); return nil })
	self := w.Tree.Get(hdr.RH(u.Hash))
	parent := w.Tree.Get(hdr.RH(u.Header.PrevBlock))
	var tipNode *ref.Node
	hdr.Safe(func() error { tipNode = w.Tree.Get(hdr.RH(w.Repo.LastHash())); return nil })
	inMemory := func(n *ref.Node) bool { return tipNode == nil || retainedNode(w, tipNode, n) }
	if self != nil {
		// already accepted: success, no change - binding while its parent is surely in memory
		allowed[hdr.VOK] = true
		if self.Parent == nil || inMemory(self.Parent) {
			return allowed, true, "already accepted"
		}
		return allowed, false, "already accepted but parent possibly pruned"
	}
	marked := false
	for _, m := range w.Marked {
		if m == u.Hash {
			marked = true
		}
	}
	if marked {
		allowed[hdr.VMarked] = true
	}
	foreign, wrongAtReq := splitReasons(w, u)
	if parent == nil {
		allowed[hdr.VUnknown] = true
		if foreign {
			allowed[hdr.VWrong] = true
		}
		return allowed, true, "parent not accepted"
	}
	if !inMemory(parent) {
		return allowed, false, "parent possibly pruned from memory"
	}
	if foreign || wrongAtReq {
		allowed[hdr.VWrong] = true
	}
	needsBranch := len(w.Tree.Children(parent)) > 0
	if needsBranch && best-parent.Height > w.Cfg.MaxBranchDepth {
		allowed[hdr.VDepth] = true
	}
	if len(allowed) == 0 {
		allowed[hdr.VOK] = true
	}
	return allowed, true, ""
}

// splitReasons: is u a foreign split header at its split height / a non-required header at the
// required split height (synthetic table).
func splitReasons(w *hdr.World, u *hdr.UHeader) (foreign, wrongAtRequired bool) {
	if w.Cfg.Splits != "synth" {
		return false, false
	}
	if u.Label == hdr.SynthF2After || u.Label == hdr.SynthF3After {
		foreign = true
	}
	if u.Height == 3 && u.Label != hdr.SynthReqAfter {
		wrongAtRequired = true
	}
	return
}

var oracleC08verdict = oracle{
	pre: func(c *checker) {
		if c.op.K == "sub" || c.op.K == "subw" {
			a, b, why := allowedVerdicts(c.w, *c.op)
			c.pre["allowed"] = a
			c.pre["binding"] = b
			c.pre["why"] = why
		}
	},
	post: func(c *checker) {
		if !c.basics() || c.st == nil || (c.st.Op.K != "sub" && c.st.Op.K != "subw") {
			return
		}
		allowed := c.pre["allowed"].(map[string]bool)
		c.n++
		if c.pre["binding"].(bool) && !allowed[c.st.Class] {
			var want []string
			for k := range allowed {
				want = append(want, k)
			}
			c.fail("verdict", normalize(c.st.Class)+"|want:"+strings.Join(sortStrings(want), "+"),
				fmt.Sprintf("submission %s answered %q (%s); the rules allow %v %s", c.st.Op.L, c.st.Class, c.st.Err, sortStrings(want), c.pre["why"]))
		}
	},
}

func sortStrings(s []string) []string {
	r := append([]string{}, s...)
	for i := range r {
		for j := i + 1; j < len(r); j++ {
			if r[j] < r[i] {
				r[i], r[j] = r[j], r[i]
			}
		}
	}
	return r
}

// C08 second half: after a non-accepting answer, or a repeated submission of an accepted header,
// every observable and a subsequent Save are identical to before.
var oracleC08nochange = oracle{
	pre: func(c *checker) {
		if c.op.K == "sub" || c.op.K == "subw" {
			c.pre["obs"] = observe(c.w, true, c.op.L)
		}
	},
	post: func(c *checker) {
		if !c.basics() || c.st == nil || (c.st.Op.K != "sub" && c.st.Op.K != "subw") {
			return
		}
		st := c.st
		if st.Class == hdr.VOK && !st.Known {
			return // genuinely accepted: change expected
		}
		before := c.pre["obs"].(string)
		after := observe(c.w, true, st.Op.L)
		c.n++
		if before != after {
			c.fail("refusal-changed-observables", normalize(st.Class)+"|"+diffClass(before, after),
				fmt.Sprintf("after %s answered %q: %s", st.Op.String(), st.Class, firstDiff(before, after)))
			return
		}
		for i, b := range st.Batches {
			if len(b) != 0 {
				c.fail("refusal-announced", normalize(st.Class), fmt.Sprintf("subscriber %d received %d headers on a non-accepting answer", i, len(b)))
				return
			}
		}
		// subsequent Save: compare the storage image with the one of the same history without the probe
		twin, err := hdr.Run(c.sc.Cfg, c.hist[:len(c.hist)-1])
		if err != nil {
			return
		}
		twin.Apply(hdr.Op{K: "save"})
		c.w.Apply(hdr.Op{K: "save"})
		c.n++
		if eq, what := twin.Store.Equal(c.w.Store); !eq {
			c.fail("refusal-changed-save", normalize(st.Class), fmt.Sprintf("Save after %s (%q) wrote a different image: %s", st.Op.String(), st.Class, what))
		}
	},
}

// ---------------------------------------------------------------------------------------------
// C09: lookups agree with the accepted tree.

func nodesToCheck(w *hdr.World) []*ref.Node {
	nodes := w.Tree.Sorted()
	if w.Cfg.Base > 0 {
		b := hdr.GetBase(w.Cfg.Base)
		for _, h := range heightsToCheck(w, w.Cfg.Base) {
			nodes = append(nodes, b.List[h])
		}
	}
	return nodes
}

func postC09(c *checker) {
	if !c.basics() {
		return
	}
	w := c.w
	t := c.tipNode(false)
	if t == nil {
		return
	}
	best := t.Height
	_, p := hdr.Safe(func() error {
		for _, n := range nodesToCheck(w) {
			h := bitcoin.Hash32(n.Hash)
			inBest := t.AncestorAt(n.Height) == n
			// a side-branch header whose branch tip is below the prune height is dropped from memory;
			// the statement keeps its height but not its retrievability
			retained := retainedNode(w, t, n)
			c.n += 4
			if got := w.Repo.HashHeight(h); got != n.Height {
				if !(got == -1 && !retained && !inBest) {
					c.fail("hash-height", opClass(c.st)+"|"+memClass(retained, inBest), fmt.Sprintf("HashHeight(%s) = %d, true height %d", n.Label, got, n.Height))
					return nil
				}
			}
			height, flag, err := w.Repo.CheckHeader(w.Ctx, h)
			if err != nil {
				if retained || inBest {
					c.fail("check-header-error", opClass(c.st)+"|"+memClass(retained, inBest), fmt.Sprintf("CheckHeader(%s): %v", n.Label, err))
					return nil
				}
			} else if height != n.Height || flag != inBest {
				c.fail("check-header", opClass(c.st)+"|"+memClass(retained, inBest)+fmt.Sprintf("|flag-got-%t-want-%t|height-ok-%t", flag, inBest, height == n.Height),
					fmt.Sprintf("CheckHeader(%s) = (%d,%t), want (%d,%t) with tip %s", n.Label, height, flag, n.Height, inBest, t.Label))
				return nil
			}
			header, gheight, gflag, err := w.Repo.GetHeader(w.Ctx, h)
			if err != nil {
				if retained && !w.Forgot {
					c.fail("get-header-error", opClass(c.st), fmt.Sprintf("GetHeader(%s): %v", n.Label, err))
					return nil
				}
			} else if header == nil || hdr.RH(*header.BlockHash()) != n.Hash || gheight != n.Height || gflag != inBest {
				c.fail("get-header", opClass(c.st)+"|"+memClass(retained, inBest)+fmt.Sprintf("|flag-got-%t-want-%t", gflag, inBest),
					fmt.Sprintf("GetHeader(%s) = (%v,%d,%t), want (%d,%t)", n.Label, header != nil, gheight, gflag, n.Height, inBest))
				return nil
			}
			prev, ph := w.Repo.PreviousHash(h)
			if prev == nil {
				if n.Parent != nil && !w.Forgot && retained {
					c.fail("previous-hash-missing", opClass(c.st), fmt.Sprintf("PreviousHash(%s) not found though the header is in memory", n.Label))
					return nil
				}
			} else if n.Parent == nil || hdr.RH(*prev) != n.Parent.Hash || ph != n.Height-1 {
				c.fail("previous-hash", opClass(c.st), fmt.Sprintf("PreviousHash(%s) = (%s,%d)", n.Label, prev, ph))
				return nil
			}
		}
		// unknown hashes
		for i := 0; i < 2; i++ {
			h := hdr.UnknownHash(i)
			c.n += 4
			_, _, err := w.Repo.CheckHeader(w.Ctx, h)
			_, _, _, err2 := w.Repo.GetHeader(w.Ctx, h)
			prev, _ := w.Repo.PreviousHash(h)
			if w.Repo.HashHeight(h) != -1 || errors.Cause(err) != headers.ErrUnknownHeader || err2 == nil || prev != nil {
				c.fail("unknown-hash-known", opClass(c.st), "an unknown hash is reported as known")
				return nil
			}
		}
		// never-accepted universe headers that were submitted and refused are unknown too
		for l := range w.Submitted {
			u := hdr.Get(l)
			if w.Tree.Get(hdr.RH(u.Hash)) != nil || removed(w, l) {
				continue
			}
			c.n++
			if w.Repo.HashHeight(u.Hash) != -1 {
				c.fail("refused-hash-known", opClass(c.st), "refused header "+l+" has a height")
				return nil
			}
		}
		// headers that were accepted and then removed by marking (and not accepted again since) are
		// not ancestors of the reported tip: whatever else is answered for them, never "in the
		// most-work chain"
		for _, l := range w.Removed {
			u := hdr.Get(l)
			if w.Tree.Get(hdr.RH(u.Hash)) != nil {
				continue
			}
			c.n += 2
			if _, inBest, err := w.Repo.CheckHeader(w.Ctx, u.Hash); err == nil && inBest {
				c.fail("removed-header-in-best-chain", opClass(c.st)+"|check-header", "CheckHeader reports "+l+", which was removed by marking, as in the most-work chain")
				return nil
			}
			if _, _, inBest, err := w.Repo.GetHeader(w.Ctx, u.Hash); err == nil && inBest {
				c.fail("removed-header-in-best-chain", opClass(c.st)+"|get-header", "GetHeader reports "+l+", which was removed by marking, as in the most-work chain")
				return nil
			}
		}
		// ranges
		starts := []int{0, 1, best - 1, best, best + 1}
		if w.Cfg.Base > 0 {
			starts = []int{998, 999, 1000, w.Cfg.Base - 2, best - 1, best}
		}
		for _, start := range starts {
			if start < 0 {
				continue
			}
			for _, count := range []int{1, 2, 5} {
				hs, err := w.Repo.GetHeaders(w.Ctx, start, count)
				c.n++
				if err != nil {
					if start <= best {
						c.fail("get-headers-error", opClass(c.st)+"|"+normalize(err.Error()), fmt.Sprintf("GetHeaders(%d,%d): %v", start, count, err))
						return nil
					}
					continue
				}
				want := count
				if start+count-1 > best {
					want = best - start + 1
				}
				if want < 0 {
					want = 0
				}
				if len(hs) != want {
					c.fail("get-headers-count", opClass(c.st), fmt.Sprintf("GetHeaders(%d,%d) returned %d headers, want %d (tip %d)", start, count, len(hs), want, best))
					return nil
				}
				for i, hd := range hs {
					if a := t.AncestorAt(start + i); a == nil || hdr.RH(*hd.BlockHash()) != a.Hash {
						c.fail("get-headers-content", opClass(c.st), fmt.Sprintf("GetHeaders(%d,%d)[%d] is not the best-chain header at that height", start, count, i))
						return nil
					}
				}
			}
		}
		return nil
	})
	if p != "" {
		c.fail("lookup-panic", opClass(c.st)+"|"+normalize(p), "a lookup panicked: "+p)
		return
	}
	if len(c.vs) == 0 {
		c.chainByHeight(t)
	}
}

// retainedNode: the statement promises behaviour for headers "within the retained depth": best
// chain headers not deeper than the smallest prune depth applied so far, and side-branch headers
// whose fork point from the best chain is not deeper than that. (Both Clean and Load keep at least
// this much in memory; what lies below may or may not be kept.)
func retainedNode(w *hdr.World, tip, n *ref.Node) bool {
	if !w.Pruned {
		return true
	}
	f := ref.ForkPoint(tip, n)
	if f == nil {
		return false
	}
	// the floor is taken at the time of each prune (best height then - depth): the best chain can
	// later become shorter (a heavier but shorter branch), which does not bring anything back
	return f.Height >= w.PruneFloor
}

func errorsCause(err error) error { return errors.Cause(err) }

func memClass(retained, inBest bool) string {
	return fmt.Sprintf("retained-%t|best-%t", retained, inBest)
}

func removed(w *hdr.World, l string) bool {
	for _, r := range w.Removed {
		if r == l {
			return true
		}
	}
	return false
}

var oracleC09 = oracle{post: postC09}

// ---------------------------------------------------------------------------------------------
// C10: Clean never changes what the repository reports.

var oracleC10 = oracle{
	pre: func(c *checker) {
		if c.op.K == "clean" || c.op.K == "cleand" {
			c.pre["obs10"] = observe(c.w, false)
		}
	},
	post: func(c *checker) {
		if !c.basics() || c.st == nil || (c.st.Op.K != "clean" && c.st.Op.K != "cleand") {
			return
		}
		if c.st.Err != "" && !(strings.HasPrefix(c.st.Op.L, "fault") && strings.Contains(c.st.Err, "injected")) {
			c.fail("clean-error", normalize(c.st.Err), "Clean returned "+c.st.Err)
			return
		}
		before := c.pre["obs10"].(string)
		after := observe(c.w, false)
		c.n++
		if before != after {
			c.fail("clean-changed-observables", c.st.Op.K+"|"+diffClass(before, after), firstDiff(before, after))
			return
		}
		if c.st.Op.K == "clean" && c.w.Cfg.Base == 0 {
			// hook conformance: VerifClean(10000) must equal the real Clean
			twin, err := hdr.Run(c.sc.Cfg, c.hist[:len(c.hist)-1])
			if err == nil {
				twin.Apply(hdr.Op{K: "cleand", D: 10000})
				var d1, d2 string
				hdr.Safe(func() error { d1 = twin.Repo.VerifDump(); d2 = c.w.Repo.VerifDump(); return nil })
				eq, _ := twin.Store.Equal(c.w.Store)
				if d1 != d2 || !eq {
					fmt.Println("HARNESS ERROR: hook drift: VerifClean(10000) differs from Clean")
					panic("hook drift")
				}
			}
		}
	},
}

// ---------------------------------------------------------------------------------------------
// C11: Save then Load restores the same repository.

var oracleC11 = oracle{
	pre: func(c *checker) {
		if c.op.K == "reload" || c.op.K == "reloadd" {
			c.pre["obs11"] = observe(c.w, false)
			c.pre["marked"] = len(c.w.Marked)
		}
	},
	post: func(c *checker) {
		if !c.basics() || c.st == nil {
			return
		}
		st := c.st
		if st.Op.K == "reload" || st.Op.K == "reloadd" {
			if st.Err != "" {
				c.fail("load-error", normalize(st.Err), "Save+Load returned "+st.Err)
				return
			}
			before := c.pre["obs11"].(string)
			after := observe(c.w, false)
			c.n++
			if before != after {
				// headers dropped from memory may lose their best-chain flag/height only when they are
				// side-branch headers below the retained depth; classify and let the C09-style rule decide
				if cl := diffClass(before, after); cl != "hash-lookup" || !onlyUnretainedDiffs(c.w, before, after) {
					c.fail("load-changed-observables", st.Op.K+"|"+cl, firstDiff(before, after))
					return
				}
			}
		}
		// differential continuation: the same history with every reload replaced by a plain save
		// must give the same verdict and tip on the last submission.
		if st.Op.K == "sub" && countOps(c.hist, "reload", "reloadd") > 0 {
			twinHist := make([]hdr.Op, len(c.hist))
			for i, o := range c.hist {
				if o.K == "reload" || o.K == "reloadd" {
					o = hdr.Op{K: "save"}
				}
				twinHist[i] = o
			}
			twin, err := hdr.Run(c.sc.Cfg, twinHist)
			if err != nil {
				return
			}
			ts := twin.Steps[len(twin.Steps)-1]
			c.n++
			// (equal-work tips are not exempt: which of them is reported must not depend on the restart)
			if ts.Class != st.Class || ts.PostTip != st.PostTip {
				// exempt submissions attaching deeper than the fork-depth limit
				u := hdr.Get(st.Op.L)
				parent := c.w.Tree.Get(hdr.RH(u.Header.PrevBlock))
				best := 0
				hdr.Safe(func() error { best = c.w.Repo.Height(); return nil })
				if parent != nil && best-parent.Height > c.w.Cfg.MaxBranchDepth {
					return
				}
				if tip := c.w.Tree.Get(hdr.RH(st.PreTip)); parent != nil && tip != nil && !retainedNode(c.w, tip, parent) {
					return // attaches to a side branch whose fork point lies below the retained depth
				}
				if parent == nil && twin.Tree.Get(hdr.RH(u.Header.PrevBlock)) == nil && ts.Class == st.Class {
					return
				}
				// a MarkHeaderInvalid after a restart made the best chain fall back to one of several
				// equal-work chains: which one is chosen there follows the order of the branch list,
				// which a restart changes. The statement covers how submissions are treated (a
				// submission that only ties never moves the tip: 57028d3), not which of equal chains a
				// later marking falls back to; same verdict and equal work is conforming.
				lastReload, markAfter := -1, false
				for i, o := range c.hist {
					if o.K == "reload" || o.K == "reloadd" {
						if lastReload < 0 {
							lastReload = i
						}
					} else if lastReload >= 0 && (o.K == "mark" || o.K == "markx" || o.K == "unmark") {
						markAfter = true
					}
				}
				if markAfter && ts.Class == st.Class {
					a, b := twin.Tree.Get(hdr.RH(ts.PostTip)), c.w.Tree.Get(hdr.RH(st.PostTip))
					if a != nil && b != nil && a.Work.Cmp(b.Work) == 0 {
						c.count("equal_work_fallback_after_mark_differs_across_restart", 1)
						return
					}
				}
				c.fail("load-diverged", fmt.Sprintf("orig:%s|loaded:%s|tip-same:%t", normalize(ts.Class), normalize(st.Class), ts.PostTip == st.PostTip),
					fmt.Sprintf("submission %s: original answers %q tip %s, loaded answers %q tip %s", st.Op.L, ts.Class, ts.PostTip, st.Class, st.PostTip))
			}
		}
	},
}

// onlyUnretainedDiffs: every differing per-header line concerns a header below the retained depth
// that is not on the best chain.
func onlyUnretainedDiffs(w *hdr.World, a, b string) bool {
	la, lb := strings.Split(a, "\n"), strings.Split(b, "\n")
	if len(la) != len(lb) {
		return false
	}
	tip := w.Tree.Get(hdr.RH(w.Steps[len(w.Steps)-1].PostTip))
	for i := range la {
		if la[i] == lb[i] {
			continue
		}
		label := strings.Fields(la[i])[0]
		n := w.Tree.Get(hdr.RH(hdr.Get(label).Hash))
		if n == nil {
			return false
		}
		if tip != nil && tip.AncestorAt(n.Height) == n {
			return false
		}
		if tip == nil || retainedNode(w, tip, n) {
			return false
		}
	}
	return true
}

// ---------------------------------------------------------------------------------------------
// C12: a crash at any storage write during Clean or Save leaves a loadable, sound state.

var crashImages sync.Map // digests of storage images loaded at crash points strictly inside a write sequence

var oracleC12 = oracle{
	pre: func(c *checker) {
		switch c.op.K {
		case "clean", "cleand", "save", "reload", "reloadd":
			c.pre["store"] = c.w.Store.Clone()
			c.pre["saved"] = c.w.SavedWork
		}
	},
	post: func(c *checker) {
		if !c.basics() || c.st == nil {
			return
		}
		st := c.st
		pre, ok := c.pre["store"].(*vstore.Store)
		if !ok {
			return
		}
		w := c.w
		for k := 0; k <= len(st.Mutated); k++ {
			img := pre.Clone()
			for _, m := range st.Mutated[:k] {
				img.Apply(m)
			}
			c.count("crash_points", 1)
			if k > 0 && k < len(st.Mutated) {
				if _, dup := crashImages.LoadOrStore(img.Digest(), true); !dup {
					c.count("distinct_mid_sequence_images", 1)
				}
			}
			for variant := 0; variant < 2; variant++ {
				// the restart after the crash keeps the default depth in memory, or (second variant) as
				// little as the production relation allows (see shortRestartDepth): everything below
				// must then come from the header files of the image
				crash := fmt.Sprintf("crash after %d of %d storage calls of %s", k, len(st.Mutated), st.Op.K)
				cw := &hdr.World{Cfg: w.Cfg, Ctx: w.Ctx, Store: img.Clone()}
				repo := cw.NewRepo()
				var err error
				var p string
				if variant == 0 {
					err, p = hdr.Safe(func() error { return repo.Load(w.Ctx) })
				} else {
					d := shortRestartDepth(w)
					crash += fmt.Sprintf(" (restart retaining %d headers in memory)", d)
					err, p = hdr.Safe(func() error { return repo.VerifLoad(w.Ctx, d) })
				}
				c.n++
				where := "mid"
				if k == 0 {
					where = "before-first"
				} else if k == len(st.Mutated) {
					where = "after-last"
				}
				if p != "" {
					c.fail("crash-load-panic", st.Op.K+"|"+where+"|"+normalize(p), crash+": Load panicked: "+p)
					return
				}
				if err != nil {
					c.fail("crash-load-error", st.Op.K+"|"+where+"|"+normalize(err.Error()), crash+": Load failed: "+err.Error())
					return
				}
				// soundness of the loaded chain
				var bad string
				var work = w.Tree.Get(hdr.RH(repo.LastHash()))
				if work == nil {
					// a header that was accepted and later removed by marking is still "a previously
					// accepted header": a stop before the next Save has written anything leaves the chain
					// of the last completed Save on storage
					work = w.Tree.Removed[hdr.RH(repo.LastHash())]
				}
				_, p = hdr.Safe(func() error {
					tip := repo.Height()
					if work == nil {
						bad = "tip is not a previously accepted header"
						return nil
					}
					if work.Height != tip {
						bad = fmt.Sprintf("tip height %d, true height %d", tip, work.Height)
						return nil
					}
					var prev *bitcoin.Hash32
					for _, h := range heightsToCheck(w, tip) {
						hash, err := repo.Hash(w.Ctx, h)
						var header *wire.BlockHeader
						if err == nil {
							header, err = repo.Header(w.Ctx, h)
						}
						if err != nil || hash == nil || header == nil {
							bad = fmt.Sprintf("height %d not retrievable: %v", h, err)
							return nil
						}
						if a := work.AncestorAt(h); a == nil || a.Hash != hdr.RH(*hash) || *header.BlockHash() != *hash {
							bad = fmt.Sprintf("height %d is not the tip's ancestor", h)
							return nil
						}
						if prev != nil && h > 0 && header.PrevBlock != *prev && w.Cfg.Base == 0 {
							bad = fmt.Sprintf("height %d does not link to height %d", h, h-1)
							return nil
						}
						prev = hash
					}
					return nil
				})
				if p != "" {
					c.fail("crash-read-panic", st.Op.K+"|"+where+"|"+normalize(p), crash+": reading the loaded chain panicked: "+p)
					return
				}
				if bad != "" {
					c.fail("crash-unsound-chain", st.Op.K+"|"+where, crash+": "+bad)
					return
				}
				sw, _ := c.pre["saved"].(*big.Int)
				if k == len(st.Mutated) && (st.Op.K == "save" || st.Op.K == "reload" || st.Op.K == "reloadd") && st.Err == "" && st.Panic == "" {
					// every storage call of this Save was made: it IS the last completed Save
					sw = w.SavedWork
				}
				if sw != nil && work.Work.Cmp(sw) < 0 {
					c.fail("crash-lost-saved-work", st.Op.K+"|"+where, crash+fmt.Sprintf(": loaded tip %s has less work than the tip at the last completed Save", work.Label))
					return
				}
				// life goes on after the restart: the recovered repository extends its chain by three
				// headers, saves, and is restarted once more with a short retained depth; what that
				// restart reports must again be the linked chain of accepted headers
				if bad := continueAfterRecovery(cw, repo, work); bad != "" {
					c.fail("crash-recovery-not-a-sound-start", st.Op.K+"|"+where+"|"+normalize(bad), crash+"; then 3 more headers, Save, restart: "+bad)
					return
				}
				c.count("recoveries_continued", 1)
			}
		}
	},
}

// shortRestartDepth is the smallest retained depth that keeps the production relation "no
// reorganisation reaches below what a restart keeps in memory" (there: 10000 headers against fork
// depths of at most MaxBranchDepth) for this history: everything above the lowest fork point of the
// accepted tree stays in memory, and at least 2 headers.
func shortRestartDepth(w *hdr.World) int {
	children := map[*ref.Node]int{}
	top := 0
	baseTip := w.Tree.SharedTip
	for _, n := range w.Tree.Sorted() {
		if n.Height > top {
			top = n.Height
		}
		if n.Parent != nil {
			children[n.Parent]++
		}
	}
	if baseTip != nil && baseTip.Height > top {
		top = baseTip.Height
	}
	lowest := top
	for p, k := range children {
		if _, shared := w.Tree.Shared[p.Hash]; shared && baseTip != nil && p.Height < baseTip.Height {
			k++ // its child on the base chain
		}
		if k >= 2 && p.Height < lowest {
			lowest = p.Height
		}
	}
	// marking a header takes the chain back to its parent, like a reorganisation that forks there
	for _, n := range w.Tree.Removed {
		if n.Height > top {
			top = n.Height
		}
		if n.Parent != nil {
			if _, gone := w.Tree.Removed[n.Parent.Hash]; !gone && n.Parent.Height < lowest {
				lowest = n.Parent.Height
			}
		}
	}
	d := top - lowest + 1
	if d < 2 {
		d = 2
	}
	return d
}

// continueAfterRecovery runs the continuation described in oracleC12 on a repository loaded from a
// crash image and returns a description of what is wrong ("" if nothing).
func continueAfterRecovery(cw *hdr.World, repo *headers.Repository, tip *ref.Node) string {
	bad := ""
	_, p := hdr.Safe(func() error {
		label := tip.Label
		var added []*hdr.UHeader
		for i := 0; i < 3; i++ {
			label += "/c" // a unit-work slot no history uses: never submitted, never marked
			u := hdr.Get(label)
			if cw.Cfg.Splits != "" {
				return nil
			}
			hc := u.Header.Copy()
			if err := repo.ProcessHeader(cw.Ctx, &hc); err != nil {
				bad = fmt.Sprintf("extending the recovered tip with %s failed: %v", label, err)
				return nil
			}
			added = append(added, u)
		}
		if err := repo.Save(cw.Ctx); err != nil {
			bad = "Save after the recovery failed: " + err.Error()
			return nil
		}
		again := cw.NewRepo()
		if err := again.VerifLoad(cw.Ctx, 2); err != nil {
			bad = "the restart after that Save failed: " + err.Error()
			return nil
		}
		newTip := tip.Height + len(added)
		if again.Height() != newTip || again.LastHash() != added[len(added)-1].Hash {
			bad = fmt.Sprintf("the restart reports tip height %d, want %d (%s)", again.Height(), newTip, label)
			return nil
		}
		var prev *bitcoin.Hash32
		for _, h := range heightsToCheck(cw, newTip) {
			hash, err := again.Hash(cw.Ctx, h)
			var header *wire.BlockHeader
			if err == nil {
				header, err = again.Header(cw.Ctx, h)
			}
			if err != nil || hash == nil || header == nil {
				bad = fmt.Sprintf("height %d not retrievable after the restart: %v", h, err)
				return nil
			}
			var want ref.Hash
			if h > tip.Height {
				want = hdr.RH(added[h-tip.Height-1].Hash)
			} else if a := tip.AncestorAt(h); a != nil {
				want = a.Hash
			}
			if hdr.RH(*hash) != want || *header.BlockHash() != *hash {
				bad = fmt.Sprintf("height %d is not on the chain of the tip after the restart", h)
				return nil
			}
			if prev != nil && cw.Cfg.Base == 0 && h > 0 && header.PrevBlock != *prev {
				bad = fmt.Sprintf("height %d does not link to height %d after the restart", h, h-1)
				return nil
			}
			prev = hash
		}
		return nil
	})
	if p != "" {
		return "panic: " + p
	}
	return bad
}

// ---------------------------------------------------------------------------------------------
// C17: a header marked invalid, and everything built on it, is excluded until unmarked.

var oracleC17 = oracle{post: func(c *checker) {
	if !c.basics() {
		return
	}
	w := c.w
	if c.st != nil && (c.st.Op.K == "mark" || c.st.Op.K == "markx" || c.st.Op.K == "unmark") && c.st.Err != "" {
		c.fail("mark-error", c.st.Op.K+"|"+normalize(c.st.Err), c.st.Op.String()+" returned "+c.st.Err)
		return
	}
	t := c.tipNode(true) // model tree no longer holds marked headers and their descendants
	if t == nil {
		return
	}
	c.chainByHeight(t)
	if len(c.vs) > 0 {
		return
	}
	_, p := hdr.Safe(func() error {
		for _, l := range w.Removed {
			u := hdr.Get(l)
			if w.Tree.Get(hdr.RH(u.Hash)) != nil {
				continue // accepted again after unmarking
			}
			c.n++
			_, flag, err := w.Repo.CheckHeader(w.Ctx, u.Hash)
			if err == nil && flag {
				c.fail("excluded-header-in-best-chain", opClass(c.st), "CheckHeader reports "+l+" (marked invalid or built on a marked header) as in the most-work chain")
				return nil
			}
		}
		return nil
	})
	if p != "" {
		c.fail("lookup-panic", opClass(c.st)+"|"+normalize(p), p)
	}
}}
