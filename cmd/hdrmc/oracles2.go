package main

import (
	"fmt"
	"sort"
	"strings"

	"verif/hdr"
	"verif/ref"

	"github.com/tokenized/bitcoin_reader/headers"
	"github.com/tokenized/pkg/bitcoin"
	"github.com/tokenized/pkg/merkle_proof"
)

// ---------------------------------------------------------------------------------------------
// C18: a merkle proof verifies only if it ties the transaction to a known header.

// modelProof builds a proof for txids[index] in the repository's proof format from the model's
// own merkle code: siblings that are the duplicated last element are listed by layer, not by hash.
func modelProof(txids []ref.Hash, index int) *merkle_proof.MerkleProof {
	txid := bitcoin.Hash32(txids[index])
	p := &merkle_proof.MerkleProof{Index: index, TxID: &txid}
	level := append([]ref.Hash{}, txids...)
	layer := 1
	idx := index
	for len(level) > 1 {
		if len(level)%2 == 1 && idx == len(level)-1 {
			p.DuplicatedIndexes = append(p.DuplicatedIndexes, layer)
		} else {
			p.Path = append(p.Path, bitcoin.Hash32(level[idx^1]))
		}
		if len(level)%2 == 1 {
			level = append(level, level[len(level)-1])
		}
		next := make([]ref.Hash, len(level)/2)
		for i := range next {
			next[i] = ref.MerkleRoot([]ref.Hash{level[2*i], level[2*i+1]})
		}
		level = next
		idx /= 2
		layer++
	}
	return p
}

func copyProof(p *merkle_proof.MerkleProof) *merkle_proof.MerkleProof {
	c := &merkle_proof.MerkleProof{Index: p.Index}
	if p.TxID != nil {
		t := *p.TxID
		c.TxID = &t
	}
	c.Path = append([]bitcoin.Hash32{}, p.Path...)
	c.DuplicatedIndexes = append([]int{}, p.DuplicatedIndexes...)
	if p.BlockHeader != nil {
		h := p.BlockHeader.Copy()
		c.BlockHeader = &h
	}
	if p.BlockHash != nil {
		h := *p.BlockHash
		c.BlockHash = &h
	}
	return c
}

var oracleC18 = oracle{post: func(c *checker) {
	if !c.basics() {
		return
	}
	w := c.w
	t := c.tipNode(false)
	if t == nil {
		return
	}
	_, p := hdr.Safe(func() error {
		for _, n := range nodesToCheck(w) {
			if n.Label == "G" {
				continue // the genesis merkle root is the real one; its transaction is not modelled
			}
			u := hdr.Get(n.Label)
			inBest := t.AncestorAt(n.Height) == n
			retained := retainedNode(w, t, n)
			for i := range u.TxIDs {
				base := modelProof(u.TxIDs, i)
				depth := len(base.Path) + len(base.DuplicatedIndexes)
				for _, withHeader := range []bool{true, false} {
					mk := func() *merkle_proof.MerkleProof {
						q := copyProof(base)
						if withHeader {
							h := u.Header.Copy()
							q.BlockHeader = &h
						} else {
							h := u.Hash
							q.BlockHash = &h
						}
						return q
					}
					mode := "hash-only"
					if withHeader {
						mode = "with-header"
					}
					// valid proof
					height, best, err := w.Repo.VerifyMerkleProof(w.Ctx, mk())
					c.n++
					c.count("proofs_valid", 1)
					if err != nil {
						// hash-only needs the header itself; a side-branch header pruned from memory is
						// known by height only
						if !(retained == false && !inBest) && !(w.Forgot && !withHeader && !inBest) {
							c.fail("valid-proof-refused", mode+"|"+memClass(retained, inBest)+"|"+normalize(err.Error()),
								fmt.Sprintf("valid proof for tx %d of %s (%s) refused: %v", i, n.Label, mode, err))
							return nil
						}
					} else if height != n.Height || best != inBest {
						c.fail("valid-proof-wrong-answer", mode+"|"+memClass(retained, inBest)+fmt.Sprintf("|flag-got-%t-want-%t", best, inBest),
							fmt.Sprintf("valid proof for tx %d of %s (%s) answered (%d,%t), want (%d,%t)", i, n.Label, mode, height, best, n.Height, inBest))
						return nil
					}
					if withHeader {
						both := mk()
						h := u.Hash
						both.BlockHash = &h
						bh, bbest, berr := w.Repo.VerifyMerkleProof(w.Ctx, both)
						c.n++
						if (berr == nil) != (err == nil) || (berr == nil && (bh != height || bbest != best)) {
							c.fail("valid-proof-both-fields", memClass(retained, inBest), fmt.Sprintf("valid proof for tx %d of %s carrying header and block hash answered (%d,%t,%v), header-only (%d,%t,%v)", i, n.Label, bh, bbest, berr, height, best, err))
							return nil
						}
					}
					// corruptions: each must be refused
					type corruption struct {
						name string
						f    func(q *merkle_proof.MerkleProof) bool
					}
					cs := []corruption{
						{"txid-bit", func(q *merkle_proof.MerkleProof) bool { q.TxID[0] ^= 1; return true }},
						{"txid-last-bit", func(q *merkle_proof.MerkleProof) bool { q.TxID[31] ^= 0x80; return true }},
						{"index-xor-1", func(q *merkle_proof.MerkleProof) bool { q.Index ^= 1; return depth > 0 }},
						{"index-plus-width", func(q *merkle_proof.MerkleProof) bool { q.Index += 1 << uint(depth); return true }},
						{"index-times-2", func(q *merkle_proof.MerkleProof) bool {
							q.Index *= 2
							return q.Index != 0 && depth > 0
						}},
						{"index-negative", func(q *merkle_proof.MerkleProof) bool { q.Index = -1 - q.Index; return true }},
						{"dup-added", func(q *merkle_proof.MerkleProof) bool {
							q.DuplicatedIndexes = append(q.DuplicatedIndexes, depth+1)
							return true
						}},
						{"dup-removed", func(q *merkle_proof.MerkleProof) bool {
							if len(q.DuplicatedIndexes) == 0 {
								return false
							}
							q.DuplicatedIndexes = q.DuplicatedIndexes[1:]
							return true
						}},
						{"path-truncated", func(q *merkle_proof.MerkleProof) bool {
							if len(q.Path) == 0 {
								return false
							}
							q.Path = q.Path[:len(q.Path)-1]
							return true
						}},
						{"path-extended", func(q *merkle_proof.MerkleProof) bool {
							q.Path = append(q.Path, bitcoin.Hash32{1})
							return true
						}},
						{"block-unknown", func(q *merkle_proof.MerkleProof) bool {
							if q.BlockHeader != nil {
								q.BlockHeader.Nonce += 12345
							} else {
								q.BlockHash[3] ^= 4
							}
							return true
						}},
						{"header-merkle-root", func(q *merkle_proof.MerkleProof) bool {
							if q.BlockHeader == nil {
								return false
							}
							q.BlockHeader.MerkleRoot[5] ^= 1
							return true
						}},
						// proofs that carry both a header and a block hash: the header is what the path is
						// checked against, so it is the header that must be known
						{"unknown-header-with-known-hash", func(q *merkle_proof.MerkleProof) bool {
							if q.BlockHeader == nil {
								return false
							}
							h := u.Hash
							q.BlockHash = &h
							q.BlockHeader.Nonce += 999
							return true
						}},
						{"altered-merkle-root-with-known-hash", func(q *merkle_proof.MerkleProof) bool {
							if q.BlockHeader == nil {
								return false
							}
							h := u.Hash
							q.BlockHash = &h
							q.BlockHeader.MerkleRoot[9] ^= 4
							return true
						}},
						{"txid-bit-with-both", func(q *merkle_proof.MerkleProof) bool {
							if q.BlockHeader == nil {
								return false
							}
							h := u.Hash
							q.BlockHash = &h
							q.TxID[3] ^= 1
							return true
						}},
						// the hash of a different accepted header at the same height (sibling / best-chain
						// header): the path recomputes this block's root, not that one's
						{"hash-of-another-known-header", func(q *merkle_proof.MerkleProof) bool {
							if q.BlockHeader != nil {
								return false
							}
							for _, m := range w.Tree.Sorted() {
								if m.Height == n.Height && m != n {
									h := bitcoin.Hash32(m.Hash)
									q.BlockHash = &h
									return true
								}
							}
							return false
						}},
						// proofs that bring a merkle root of their own (a field of the proof format): an altered
						// txid with the root that this txid and path recompute - tied to nothing the
						// repository knows
						{"txid-bit-with-self-computed-root", func(q *merkle_proof.MerkleProof) bool {
							q.TxID[3] ^= 1
							alt := ref.Hash(*q.TxID)
							var path []ref.Hash
							for _, ph := range q.Path {
								path = append(path, ref.Hash(ph))
							}
							root := bitcoin.Hash32(ref.RootFromPath(alt, q.Index, path))
							q.MerkleRoot = &root
							return true
						}},
						{"no-target", func(q *merkle_proof.MerkleProof) bool {
							q.BlockHeader, q.BlockHash = nil, nil
							return true
						}},
					}
					for k := range base.Path {
						k := k
						cs = append(cs, corruption{fmt.Sprintf("path-%d-bit", k), func(q *merkle_proof.MerkleProof) bool { q.Path[k][7] ^= 2; return true }})
					}
					for _, cr := range cs {
						q := mk()
						if !cr.f(q) {
							continue
						}
						_, _, err := w.Repo.VerifyMerkleProof(w.Ctx, q)
						c.n++
						c.count("proofs_corrupted", 1)
						if err == nil {
							name := cr.name
							if len(name) > 5 && name[:5] == "path-" && name != "path-truncated" && name != "path-extended" {
								name = "path-bit"
							}
							c.fail("corrupted-proof-accepted", name+"|"+mode,
								fmt.Sprintf("proof for tx %d of %d in %s with corruption %q (%s) verified", i, len(u.TxIDs), n.Label, cr.name, mode))
							return nil
						}
					}
				}
			}
		}
		// headers the repository does not know: submitted and refused (too deep a fork, wrong chain,
		// orphan ...), or never submitted. A proof whose path is right for such a header must fail in
		// every form.
		removed := map[string]bool{}
		for _, l := range w.Removed {
			removed[l] = true
		}
		var foreign []string
		for l := range w.Submitted {
			if w.Tree.Get(hdr.RH(hdr.Get(l).Hash)) == nil && !removed[l] && !w.IsMarkedLabel(l) {
				foreign = append(foreign, l)
			}
		}
		sort.Strings(foreign)
		for _, l := range []string{"G/x", t.Label + "/x"} {
			if !w.Submitted[l] {
				foreign = append(foreign, l)
			}
		}
		// headers removed because they, or an ancestor, were marked invalid: whatever else is
		// reported about them, a proof must not place them on the best chain
		for _, l := range w.Removed {
			u := hdr.Get(l)
			if w.Tree.Get(hdr.RH(u.Hash)) != nil {
				continue // accepted again after unmarking
			}
			base := modelProof(u.TxIDs, 0)
			for _, withHeader := range []bool{true, false} {
				q := copyProof(base)
				if withHeader {
					h := u.Header.Copy()
					q.BlockHeader = &h
				} else {
					h := u.Hash
					q.BlockHash = &h
				}
				height, best, err := w.Repo.VerifyMerkleProof(w.Ctx, q)
				c.n++
				c.count("proofs_removed_header", 1)
				if !withHeader {
					// the path of the block that now sits on the best chain at the same height, presented
					// under the removed block's hash: proves nothing about the removed block
					if other := t.AncestorAt(hdr.Get(l).Height); other != nil && other.Label != "G" && other.Hash != hdr.RH(u.Hash) {
						x := copyProof(modelProof(hdr.Get(other.Label).TxIDs, 0))
						h := u.Hash
						x.BlockHash = &h
						_, _, xerr := w.Repo.VerifyMerkleProof(w.Ctx, x)
						c.n++
						c.count("proofs_cross_block", 1)
						if xerr == nil {
							c.fail("proof-of-another-block-accepted", "removed-header-hash", fmt.Sprintf(
								"the valid path of tx 0 of %s, presented under the hash of %s (removed as invalid, same height), verified", other.Label, l))
							return nil
						}
					}
				}
				if err == nil && best {
					c.fail("proof-for-removed-header-in-best-chain", fmt.Sprintf("with-header-%t", withHeader),
						fmt.Sprintf("proof for tx 0 of %s, removed as invalid (or built on an invalid header), verified as (%d, on the best chain)", l, height))
					return nil
				}
			}
		}
		for _, l := range foreign {
			u := hdr.Get(l)
			base := modelProof(u.TxIDs, 0)
			for _, mode := range []string{"with-header", "hash-only", "both"} {
				q := copyProof(base)
				if mode != "hash-only" {
					h := u.Header.Copy()
					q.BlockHeader = &h
				}
				if mode != "with-header" {
					h := u.Hash
					q.BlockHash = &h
				}
				height, best, err := w.Repo.VerifyMerkleProof(w.Ctx, q)
				c.n++
				c.count("proofs_unknown_header", 1)
				if err == nil {
					class := "never-submitted"
					if w.Submitted[l] {
						class = "refused"
					}
					c.fail("proof-for-unknown-header-accepted", class+"|"+mode,
						fmt.Sprintf("proof for tx 0 of %s, a header the repository %s (%s), verified with (%d,%t)", l, class, mode, height, best))
					return nil
				}
			}
		}
		return nil
	})
	if p != "" {
		c.fail("verify-panic", opClass(c.st)+"|"+normalize(p), "VerifyMerkleProof panicked: "+p)
	}
}}

// ---------------------------------------------------------------------------------------------
// C19: locators are well-formed and let a same-chain peer continue from our tip.

func splitBefore(w *hdr.World) map[ref.Hash]bool {
	m := map[ref.Hash]bool{}
	for _, l := range hdr.SplitBeforeLabels(w.Cfg.Splits) {
		m[hdr.RH(hdr.Get(l).Hash)] = true
	}
	return m
}

var oracleC19 = oracle{post: func(c *checker) {
	if !c.basics() {
		return
	}
	w := c.w
	t := c.tipNode(false)
	if t == nil {
		return
	}
	splits := splitBefore(w)
	type peerCase struct {
		chain []*hdr.UHeader
		name  string
	}
	// simulated peers: every accepted leaf, and its extensions by one and two universe headers
	var peers []peerCase
	for _, n := range w.Tree.Sorted() {
		if !w.Tree.IsLeaf(n) {
			continue
		}
		var chain []*hdr.UHeader
		for a := n; a != nil && a.Base == nil; a = a.Parent {
			chain = append([]*hdr.UHeader{hdr.Get(a.Label)}, chain...)
		}
		peers = append(peers, peerCase{chain, n.Label})
		e1 := hdr.Get(n.Label + "/a")
		peers = append(peers, peerCase{append(append([]*hdr.UHeader{}, chain...), e1), e1.Label})
		e2 := hdr.Get(n.Label + "/a/a")
		peers = append(peers, peerCase{append(append([]*hdr.UHeader{}, chain...), e1, e2), e2.Label})
	}
	var firstReplies []string
	bases := branchBases(w)
	_, p := hdr.Safe(func() error {
		// 50 first: with locators observed after every operation (hdr.World requests max 50) the first
		// request here repeats the previous one, the way a poll repeats the previous poll
		for _, max := range []int{50, 10, 3, 2, 1} {
			loc, err := w.Repo.GetLocatorHashes(w.Ctx, max)
			c.n++
			if err != nil {
				c.fail("locator-error", normalize(err.Error()), err.Error())
				return nil
			}
			seen := map[bitcoin.Hash32]bool{}
			bestCount := 0
			anyBest := false
			lastBestHeight := 1 << 30
			for i, h := range loc {
				c.n++
				if seen[h] {
					c.fail("locator-duplicate", fmt.Sprintf("splits-%s", w.Cfg.Splits), fmt.Sprintf("GetLocatorHashes(%d) lists %s twice", max, h))
					return nil
				}
				seen[h] = true
				n := w.Tree.Get(hdr.RH(h))
				onBest := n != nil && t.AncestorAt(n.Height) == n
				switch {
				case onBest:
					if !anyBest {
						want := t.Parent
						if t.Height == 0 {
							want = t
						}
						if n != want {
							c.fail("locator-start", opClass(c.st), fmt.Sprintf("GetLocatorHashes(%d): first best-chain hash is %s, want the tip's parent %s", max, n.Label, want.Label))
							return nil
						}
					}
					if n.Height >= lastBestHeight {
						c.fail("locator-order", opClass(c.st), fmt.Sprintf("GetLocatorHashes(%d): best-chain hashes not strictly descending at position %d", max, i))
						return nil
					}
					lastBestHeight = n.Height
					anyBest = true
					if !splits[n.Hash] && !bases[h] {
						bestCount++
					}
				case splits[hdr.RH(h)]:
				case n != nil:
					// accepted header not on the best chain: it has to be the base (lowest retained
					// header) of one of the branches the repository tracks at this moment
					if !bases[h] {
						c.fail("locator-orphaned-hash", opClass(c.st), fmt.Sprintf("GetLocatorHashes(%d)[%d] = %s is an accepted header that is neither on the best chain (tip %s) nor the base of a tracked side branch", max, i, n.Label, t.Label))
						return nil
					}
				default:
					c.fail("locator-foreign-hash", opClass(c.st), fmt.Sprintf("GetLocatorHashes(%d)[%d] = %s is no best-chain header, split point or side-branch base", max, i, h))
					return nil
				}
			}
			if bestCount > max {
				c.fail("locator-too-long", opClass(c.st), fmt.Sprintf("GetLocatorHashes(%d) returned %d best-chain hashes", max, bestCount))
				return nil
			}
			if !anyBest {
				c.fail("locator-empty", opClass(c.st), fmt.Sprintf("GetLocatorHashes(%d) has no best-chain hash", max))
				return nil
			}
			if max != 3 && max != 10 {
				continue
			}
			// protocol answer of each simulated peer
			for _, pc := range peers {
				idx := -1
			search:
				for _, h := range loc {
					for j, u := range pc.chain {
						if u.Hash == h {
							idx = j
							break search
						}
					}
				}
				c.n++
				if idx == -1 || idx+1 >= len(pc.chain) {
					continue // shares nothing with us, or has nothing newer
				}
				first := pc.chain[idx+1]
				c.count("peer_replies", 1)
				if sn := w.Tree.Get(hdr.RH(pc.chain[idx].Hash)); sn == nil || !retainedNode(w, t, sn) {
					// the only shared hash is a split fork point below the retained depth: whether a
					// header attaching there connects is outside what the statement fixes
					c.count("peer_replies_below_retained_depth", 1)
					continue
				}
				if t.Height > 0 && (pc.name == t.Label || (len(pc.name) > len(t.Label) && pc.name[:len(t.Label)+1] == t.Label+"/")) {
					// peer on our best chain (possibly ahead): the reply must start with our tip
					if first.Label != t.Label {
						c.fail("locator-same-chain-reply", opClass(c.st), fmt.Sprintf("max %d: a peer on our best chain (tip %s) replies starting with %s instead of our tip %s", max, pc.name, first.Label, t.Label))
						return nil
					}
				}
				if max == 10 {
					firstReplies = append(firstReplies, first.Label)
				}
			}
		}
		// verify-only locator
		vl, err := w.Repo.GetVerifyOnlyLocatorHashes(w.Ctx)
		c.n++
		if err != nil {
			c.fail("verify-locator-error", normalize(err.Error()), err.Error())
			return nil
		}
		seen := map[bitcoin.Hash32]bool{}
		for _, h := range vl {
			if seen[h] {
				c.fail("verify-locator-duplicate", fmt.Sprintf("splits-%s", w.Cfg.Splits), "GetVerifyOnlyLocatorHashes lists "+h.String()+" twice")
				return nil
			}
			seen[h] = true
			if w.Cfg.Splits != "" && !splits[hdr.RH(h)] {
				c.fail("verify-locator-foreign-hash", "", "GetVerifyOnlyLocatorHashes lists a hash that is no split point")
				return nil
			}
		}
		return nil
	})
	if p != "" {
		c.fail("locator-panic", opClass(c.st)+"|"+normalize(p), "locator call panicked: "+p)
		return
	}
	if len(c.vs) > 0 {
		return
	}
	// every first reply header must connect to a header we hold: submitting it is not "unknown parent".
	// (this mutates the world, which is discarded after the transition; state key is taken before)
	done := map[string]bool{}
	for _, l := range firstReplies {
		if done[l] {
			continue
		}
		done[l] = true
		u := hdr.Get(l)
		hc := u.Header.Copy()
		err, p := hdr.Safe(func() error { return w.Repo.ProcessHeader(w.Ctx, &hc) })
		c.n++
		if p != "" || (err != nil && errorsCause(err) == headers.ErrUnknownHeader) {
			c.fail("locator-reply-does-not-connect", opClass(c.st), fmt.Sprintf("the first header %s of a protocol-conformant reply does not connect: %v %s", l, err, p))
			return
		}
	}
}}

// branchBases returns the lowest in-memory header of every branch other than the longest, read
// from the hooked dump. "Tracked side branch" is an internal notion, so the internal view is used
// to classify locator entries: such a base may lie on the best chain (when the best chain runs
// through the start of that branch) and is then not one of the stepped-back hashes that the
// requested maximum limits.
func branchBases(w *hdr.World) map[bitcoin.Hash32]bool {
	r := map[bitcoin.Hash32]bool{}
	var dump string
	hdr.Safe(func() error { dump = w.Repo.VerifDump(); return nil })
	longest := -1
	lines := strings.Split(dump, "\n")
	if len(lines) > 0 {
		fmt.Sscanf(lines[0], "longest=%d", &longest)
	}
	cur := -1
	needFirst := false
	for _, l := range lines {
		if strings.HasPrefix(l, "b") {
			fmt.Sscanf(l, "b%d", &cur)
			needFirst = cur != longest
			continue
		}
		if strings.HasPrefix(l, " h ") && needFirst {
			f := strings.Fields(l)
			if h, err := bitcoin.NewHash32FromStr(f[1]); err == nil {
				r[*h] = true
			}
			needFirst = false
		}
	}
	return r
}
