package main

import (
	"fmt"
	"sort"
	"strings"

	"verif/hdr"

	"github.com/tokenized/pkg/bitcoin"
	"github.com/tokenized/pkg/wire"
)

// observe returns a canonical rendering of everything the public read API reports.
// level "basic": tip triple, hash/header per height, height and best-chain flag per touched header.
// level "full": additionally GetHeader, PreviousHash, locators.
func observe(w *hdr.World, full bool, extraLabels ...string) string {
	sb := &strings.Builder{}
	_, p := hdr.Safe(func() error {
		repo := w.Repo
		tip := repo.Height()
		fmt.Fprintf(sb, "tip %d %s %s\n", tip, repo.LastHash(), repo.AccumulatedWork().Text(16))
		for _, h := range heightsToCheck(w, tip) {
			hash, err := repo.Hash(w.Ctx, h)
			header, err2 := repo.Header(w.Ctx, h)
			hs, hh := "nil", "nil"
			if hash != nil {
				hs = hash.String()
			}
			if header != nil {
				hh = header.BlockHash().String()
			}
			fmt.Fprintf(sb, "h%d %s %v %s %v\n", h, hs, err != nil, hh, err2 != nil)
		}
		labels := map[string]bool{"G": true}
		for l := range w.Submitted {
			// headers removed by marking them invalid are neither best-chain history nor a side branch:
			// what is still reported about them (a height left in the long-lived index) is outside
			// what Clean / Save / Load promise to keep
			if removed(w, l) && w.Tree.Get(hdr.RH(hdr.Get(l).Hash)) == nil {
				continue
			}
			labels[l] = true
		}
		for _, l := range extraLabels {
			labels[l] = true
		}
		var ls []string
		for l := range labels {
			ls = append(ls, l)
		}
		sort.Strings(ls)
		for _, l := range ls {
			u := hdr.Get(l)
			height, best, err := repo.CheckHeader(w.Ctx, u.Hash)
			fmt.Fprintf(sb, "%s hh=%d ch=%d,%t,%v", l, repo.HashHeight(u.Hash), height, best, err != nil)
			if full {
				gh, gheight, gbest, gerr := repo.GetHeader(w.Ctx, u.Hash)
				ghs := "nil"
				if gh != nil {
					ghs = gh.BlockHash().String()[:8]
				}
				prev, ph := repo.PreviousHash(u.Hash)
				ps := "nil"
				if prev != nil {
					ps = prev.String()[:8]
				}
				fmt.Fprintf(sb, " gh=%s,%d,%t,%v prev=%s,%d", ghs, gheight, gbest, gerr != nil, ps, ph)
			}
			sb.WriteString("\n")
		}
		if full {
			for _, max := range []int{1, 3, 10} {
				loc, err := repo.GetLocatorHashes(w.Ctx, max)
				fmt.Fprintf(sb, "loc%d %s %v\n", max, hashList(loc), err != nil)
			}
			if tip > 0 {
				hs, err := repo.GetHeaders(w.Ctx, maxInt(0, tip-3), 10)
				fmt.Fprintf(sb, "range %s %v\n", headerList(hs), err != nil)
			}
		}
		return nil
	})
	if p != "" {
		fmt.Fprintf(sb, "PANIC %s\n", p)
	}
	return sb.String()
}

func maxInt(a, b int) int {
	if a > b {
		return a
	}
	return b
}

func hashList(l []bitcoin.Hash32) string {
	s := make([]string, len(l))
	for i, h := range l {
		s[i] = h.String()[:8]
	}
	return strings.Join(s, ",")
}

func headerList(l []*wire.BlockHeader) string {
	s := make([]string, len(l))
	for i, h := range l {
		s[i] = h.BlockHash().String()[:8]
	}
	return strings.Join(s, ",")
}

// firstDiff returns the first line where two renderings differ.
func firstDiff(a, b string) string {
	la, lb := strings.Split(a, "\n"), strings.Split(b, "\n")
	for i := 0; i < len(la) || i < len(lb); i++ {
		x, y := "", ""
		if i < len(la) {
			x = la[i]
		}
		if i < len(lb) {
			y = lb[i]
		}
		if x != y {
			return fmt.Sprintf("before: %q after: %q", x, y)
		}
	}
	return ""
}

// diffClass names the kind of line that differs (tip / height / header lookup / locator).
func diffClass(a, b string) string {
	la, lb := strings.Split(a, "\n"), strings.Split(b, "\n")
	for i := 0; i < len(la) || i < len(lb); i++ {
		x, y := "", ""
		if i < len(la) {
			x = la[i]
		}
		if i < len(lb) {
			y = lb[i]
		}
		if x != y {
			f := strings.Fields(x + " " + y)
			if len(f) == 0 {
				return "empty"
			}
			switch {
			case f[0] == "tip":
				return "tip"
			case strings.HasPrefix(f[0], "loc"):
				return "locator"
			case f[0] == "range":
				return "range"
			case strings.HasPrefix(f[0], "h") && len(f[0]) > 1 && f[0][1] >= '0' && f[0][1] <= '9':
				return "height-lookup"
			case f[0] == "PANIC":
				return "panic"
			}
			return "hash-lookup"
		}
	}
	return ""
}
