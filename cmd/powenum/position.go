package main

import (
	"fmt"
	"os"
	"runtime"
	"sync"
	"sync/atomic"

	"verif/mc"
	"verif/ref"

	"github.com/pkg/errors"
	"github.com/tokenized/bitcoin_reader/headers"
	"github.com/tokenized/pkg/wire"
)

// part 8: the required bits are enforced for the FIRST header of a new branch too, not only for a
// header that extends a tip. In the fork fixture (a main branch that requires the proof-of-work
// limit and a fork that requires half of it, built with checking off), with checking on, a header
// claiming the limit and carrying real proof of work for that claim is offered as a sibling of
//   - the fork's tip (a new branch off the fork; the fork requires half the limit there): refused
//     as invalid target and unknown afterwards;
//   - the main branch's tip (a new branch off the main branch, which requires exactly the limit):
//     accepted - the accept side of the same position.
//
// The nonces were found once by `powenum -mine-position` (about 2^32 hashes each); a stale
// fixture is a harness error, not a verdict.
type positionCase struct {
	name      string
	branch    string // parent = the header below this branch's tip
	nonce     uint32
	timestamp uint32
	accept    bool
}

var positionCases = []positionCase{
	{"new-branch-off-fork", "fork", positionNonceFork, positionTimeFork, false},
	{"new-branch-off-main", "main", positionNonceMain, positionTimeMain, true},
}

func positionParent(chains map[string][]*wire.BlockHeader, branch string) *wire.BlockHeader {
	c := chains[branch]
	return c[len(c)-2]
}

func positionCandidate(parent *wire.BlockHeader, ts, nonce uint32) *wire.BlockHeader {
	return &wire.BlockHeader{Version: 2, PrevBlock: *parent.BlockHash(), Timestamp: ts, Bits: 0x1d00ffff, Nonce: nonce}
}

func minePosition() {
	_, chains, err := buildForkFixtureChains()
	if err != nil {
		fmt.Println("fixture:", err)
		os.Exit(2)
	}
	target, _ := ref.DecodeCompact(0x1d00ffff)
	for _, pc := range positionCases {
		parent := positionParent(chains, pc.branch)
		spacing := uint32(300)
		if pc.branch == "main" {
			spacing = 600
		}
		if only := os.Getenv("MINE_ONLY"); only != "" && only != pc.name {
			continue
		}
		ts := parent.Timestamp + spacing
		if bump := os.Getenv("MINE_BUMP"); bump != "" {
			var b uint32
			fmt.Sscan(bump, &b)
			ts += b
		}
		var found atomic.Bool
	retry:
		var wg sync.WaitGroup
		workers := runtime.GOMAXPROCS(0)
		for w := 0; w < workers; w++ {
			wg.Add(1)
			go func(w int) {
				defer wg.Done()
				h := positionCandidate(parent, ts, 0)
				for n := uint64(w); n < 1<<32 && !found.Load(); n += uint64(workers) {
					h.Nonce = uint32(n)
					if h.BlockHash().Value().Cmp(target) <= 0 {
						if !found.Swap(true) {
							fmt.Printf("MINED %s nonce=%d time=%d hash=%s\n", pc.name, h.Nonce, h.Timestamp, h.BlockHash())
						}
						return
					}
				}
			}(w)
		}
		wg.Wait()
		if !found.Load() {
			fmt.Println(pc.name, "not found in the nonce range at time", ts, "- trying the next second")
			ts++
			goto retry
		}
	}
}

func positionPart(thorough bool) *result {
	res := newResult()
	for _, pc := range positionCases {
		if pc.timestamp == 0 {
			res.outcomes["first-header-of-"+pc.name+"/fixture-header-not-mined-yet"]++
			continue
		}
		f, chains, err := buildForkFixtureChains()
		if err != nil {
			fmt.Println("HARNESS ERROR: fork fixture:", err)
			os.Exit(2)
		}
		parent := positionParent(chains, pc.branch)
		h := positionCandidate(parent, pc.timestamp, pc.nonce)
		target, _ := ref.DecodeCompact(h.Bits)
		if h.BlockHash().Value().Cmp(target) > 0 {
			fmt.Println("HARNESS ERROR: the mined header", pc.name, "no longer has valid proof of work (fixture chain changed); re-run powenum -mine-position")
			os.Exit(2)
		}
		f.repo.EnableDifficulty()
		tipBefore := f.repo.LastHash()
		var perr error
		p := safe(func() { perr = f.repo.ProcessHeader(ctx, h) })
		res.evaluations++
		res.nontrivial++
		cause := "nil"
		if perr != nil {
			cause = errors.Cause(perr).Error()
		}
		res.outcomes["first-header-of-"+pc.name+"/"+cause]++
		res.samples = append(res.samples, map[string]any{"part": "position-in-tree", "position": pc.name, "offered_bits": "0x1d00ffff", "answer": cause})
		hash := *h.BlockHash()
		known := f.repo.HashHeight(hash) != -1
		tipAfter := f.repo.LastHash()
		hist := map[string]any{"position": pc.name, "nonce": pc.nonce, "timestamp": pc.timestamp}
		switch {
		case p != "":
			res.vs = append(res.vs, mc.Violation{Prop: "C02", Clause: "position-panic", Fingerprint: "position-panic|" + pc.name, Detail: p, History: hist})
		case !pc.accept && (errors.Cause(perr) != headers.ErrInvalidTarget || known || !tipAfter.Equal(&tipBefore)):
			res.vs = append(res.vs, mc.Violation{Prop: "C02", Clause: "new-branch-with-wrong-target", Fingerprint: "new-branch-with-wrong-target|" + cause,
				Detail:  fmt.Sprintf("a header claiming the proof-of-work limit (with real proof of work for that claim), offered as the first header of a new branch off the fork, which requires half the limit there, was answered %q instead of invalid target (known afterwards: %v, tip changed: %v)", cause, known, !tipAfter.Equal(&tipBefore)),
				History: hist})
		case pc.accept && (perr != nil || !known):
			res.vs = append(res.vs, mc.Violation{Prop: "C02", Clause: "new-branch-with-right-target-refused", Fingerprint: "new-branch-with-right-target-refused|" + cause,
				Detail:  fmt.Sprintf("a header with the required bits and real proof of work, offered as the first header of a new branch off the main branch, was answered %q", cause),
				History: hist})
		}
	}
	return res
}

const (
	positionNonceFork = uint32(3086048737)
	positionTimeFork  = uint32(1600048602)
	positionNonceMain = uint32(1078628369)
	positionTimeMain  = uint32(1600096002)
)
