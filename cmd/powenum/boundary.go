package main

import (
	"fmt"
	"math/big"
	"os"
	"runtime"
	"sync"
	"sync/atomic"

	"verif/mc"
	"verif/ref"
	"verif/vstore"

	"github.com/pkg/errors"
	"github.com/tokenized/bitcoin_reader/headers"
	"github.com/tokenized/pkg/bitcoin"
	"github.com/tokenized/pkg/wire"
)

// part 5: the first height at which the required target is enforced (556767). A chain of 199
// headers 300 s apart is built with checking off so that it ends at 556766 and requires half the
// proof-of-work limit at 556767; then, with checking on (and split protection off, so that a header
// other than the BSV split header can be offered there at all), a header with real proof of work for
// the *limit* bits is offered at exactly 556767: it must be refused as invalid target. The nonce was
// found once by `powenum -mine-boundary`; a stale fixture is a harness error, not a verdict.
const (
	boundaryHeight    = 556767
	boundaryNonce     = uint32(3048368428)
	boundaryTimestamp = uint32(1600060000)
)

type boundaryFixture struct {
	repo *headers.Repository
	tip  *wire.BlockHeader
}

func buildBoundaryFixture() (*boundaryFixture, error) { return buildBoundaryFixtureOn(bitcoin.MainNet) }

func buildBoundaryFixtureOn(net bitcoin.Network) (*boundaryFixture, error) {
	repo := headers.NewRepository(&headers.Config{Network: net, MaxBranchDepth: 144}, vstore.New())
	repo.DisableDifficulty()
	repo.DisableSplitProtection()
	limit := uint32(0x1d00ffff)
	first := boundaryHeight - 200
	base := &wire.BlockHeader{Version: 1, Timestamp: baseTime, Bits: limit, Nonce: 77}
	repo.MockLatest(ctx, base, first, new(big.Int).Lsh(big.NewInt(1), 80))
	prev := *base.BlockHash()
	var tip *wire.BlockHeader
	for i := 1; i <= 199; i++ {
		h := &wire.BlockHeader{Version: 1, PrevBlock: prev, Timestamp: baseTime + uint32(i)*300, Bits: limit, Nonce: uint32(5000 + i)}
		if err := repo.ProcessHeader(ctx, h); err != nil {
			return nil, errors.Wrapf(err, "header %d", i)
		}
		prev = *h.BlockHash()
		tip = h
	}
	if repo.Height() != boundaryHeight-1 {
		return nil, fmt.Errorf("fixture tip at %d, want %d", repo.Height(), boundaryHeight-1)
	}
	return &boundaryFixture{repo: repo, tip: tip}, nil
}

func boundaryCandidate(f *boundaryFixture, ts, nonce uint32) *wire.BlockHeader {
	return &wire.BlockHeader{Version: 1, PrevBlock: *f.tip.BlockHash(), Timestamp: ts, Bits: 0x1d00ffff, Nonce: nonce}
}

func mineBoundary() {
	f, err := buildBoundaryFixture()
	if err != nil {
		fmt.Println("fixture:", err)
		os.Exit(2)
	}
	target, _ := ref.DecodeCompact(0x1d00ffff)
	ts := f.tip.Timestamp + 300
	var found atomic.Bool
	var wg sync.WaitGroup
	workers := runtime.GOMAXPROCS(0)
	for w := 0; w < workers; w++ {
		wg.Add(1)
		go func(w int) {
			defer wg.Done()
			h := boundaryCandidate(f, ts, 0)
			for n := uint64(w); n < 1<<32 && !found.Load(); n += uint64(workers) {
				h.Nonce = uint32(n)
				if h.BlockHash().Value().Cmp(target) <= 0 {
					if !found.Swap(true) {
						fmt.Printf("MINED nonce=%d time=%d hash=%s\n", h.Nonce, h.Timestamp, h.BlockHash())
					}
					return
				}
			}
		}(w)
	}
	wg.Wait()
	if !found.Load() {
		fmt.Println("not found in the nonce range; bump the timestamp")
	}
}

func boundaryPart(thorough bool) *result {
	res := newResult()
	// on the mainnet configuration, and on a repository configured for another network (no chain
	// split table): the enforcement of the required target does not depend on the split configuration
	for _, net := range []bitcoin.Network{bitcoin.MainNet, bitcoin.TestNet} {
		boundaryOn(res, net)
	}
	return res
}

func boundaryOn(res *result, net bitcoin.Network) {
	f, err := buildBoundaryFixtureOn(net)
	if err != nil {
		fmt.Println("HARNESS ERROR: boundary fixture:", err)
		os.Exit(2)
	}
	h := boundaryCandidate(f, boundaryTimestamp, boundaryNonce)
	target, _ := ref.DecodeCompact(h.Bits)
	if h.BlockHash().Value().Cmp(target) > 0 {
		fmt.Println("HARNESS ERROR: the mined boundary header no longer has valid proof of work (fixture chain changed); re-run powenum -mine-boundary")
		os.Exit(2)
	}
	f.repo.EnableDifficulty()
	var perr error
	p := safe(func() { perr = f.repo.ProcessHeader(ctx, h) })
	res.evaluations++
	res.nontrivial++
	cause := "nil"
	if perr != nil {
		cause = errors.Cause(perr).Error()
	}
	tag := fmt.Sprintf("network-%v", net)
	res.outcomes["limit-bits-at-first-enforced-height/"+tag+"/"+cause]++
	res.samples = append(res.samples, map[string]any{"part": "activation-boundary", "configured_network": fmt.Sprint(net), "height": boundaryHeight, "offered_bits": "0x1d00ffff", "answer": cause})
	switch {
	case p != "":
		res.vs = append(res.vs, mc.Violation{Prop: "C02", Clause: "boundary-panic", Fingerprint: "boundary-panic|" + tag, Detail: p, History: map[string]any{"height": boundaryHeight}})
	case perr == nil || errors.Cause(perr) != headers.ErrInvalidTarget:
		res.vs = append(res.vs, mc.Violation{Prop: "C02", Clause: "target-not-enforced-at-first-height", Fingerprint: "target-not-enforced-at-first-height|" + tag + "|" + cause,
			Detail:  fmt.Sprintf("a header at height %d (the first height with an enforced target) claiming the proof-of-work limit, with real proof of work for that claim, was answered %q although the chain requires half the limit (repository configured for network %v)", boundaryHeight, cause, net),
			History: map[string]any{"height": boundaryHeight, "nonce": boundaryNonce, "timestamp": boundaryTimestamp, "network": fmt.Sprint(net)}})
	}
}
