// powenum: bounded-exhaustive enumeration for C02 (proof of work):
//  1. the difficulty target function on real Branch objects against a reference implementation
//     of the network's 144-block algorithm (all tie / order patterns, span classes, bits patterns,
//     main chain and fork branches);
//  2. every exponent byte x a mantissa set through ProcessHeader and HandleHeadersMessage
//     (crash freedom for every encoding; refusal whenever the hash exceeds a well-defined target);
//  3. the real mainnet fixture chains with difficulty checking on, and every single-field
//     mutation of a window of real headers.
package main

import (
	"bytes"
	"context"
	"encoding/json"
	"flag"
	"fmt"
	"math/big"
	"os"
	"runtime"
	"sort"
	"sync"
	"time"

	"verif/mc"
	"verif/ref"
	"verif/vstore"

	"github.com/pkg/errors"
	"github.com/tokenized/bitcoin_reader/headers"
	"github.com/tokenized/logger"
	"github.com/tokenized/pkg/bitcoin"
	"github.com/tokenized/pkg/wire"
)

var ctx = logger.ContextWithNoLogger(context.Background())

type result struct {
	evaluations int
	nontrivial  int
	outcomes    map[string]int
	vs          []mc.Violation
	samples     []any
}

func newResult() *result { return &result{outcomes: map[string]int{}} }

func (r *result) merge(o *result) {
	r.evaluations += o.evaluations
	r.nontrivial += o.nontrivial
	for k, v := range o.outcomes {
		r.outcomes[k] += v
	}
	r.vs = append(r.vs, o.vs...)
	r.samples = append(r.samples, o.samples...)
}

func safe(f func()) (p string) {
	defer func() {
		if r := recover(); r != nil {
			p = fmt.Sprint(r)
		}
	}()
	f()
	return ""
}

// ---------------------------------------------------------------------------------------------
// part 1: target function

const (
	baseHeight = 600000
	chainLen   = 150
	baseTime   = uint32(1600000000)
)

var bitsClasses = map[string]uint32{"limit": 0x1d00ffff, "mid": 0x1803a30c, "hard": 0x17123456}

type targetCase struct {
	Times  [6]int8   `json:"time_offsets"` // offsets (-1,0,+1)*delta for heights h-147,h-146,h-145,h-3,h-2,h-1
	Delta  uint32    `json:"delta"`
	Span   int64     `json:"span"` // time of the last group minus time of the first group
	Bits   [6]string `json:"bits"`
	Others string    `json:"other_bits"`
	Fork   int       `json:"fork_at"` // 0: single root branch; k: a fork branch starts at index k
}

var interesting = [6]int{3, 4, 5, 147, 148, 149}

func runTargetCase(c targetCase) (got, want uint32, p string) {
	hs, blocks := caseChain(c)
	// the first header's accumulated work inside the implementation is its own work only; the
	// algorithm only uses differences, so shift the reference by the same constant
	p = safe(func() {
		branch := branchOf(hs, c.Fork)
		target, err := branch.Target(ctx, baseHeight+chainLen)
		if err != nil {
			panic(err)
		}
		got = bitcoin.ConvertToBits(target, bitcoin.MaxBits)
	})
	want = ref.DAARequiredBits(baseHeight+chainLen, func(height int) ref.DAABlock { return blocks[height-baseHeight] })
	return
}

// caseChain builds the 150 headers of a target case and the reference's view of them.
func caseChain(c targetCase) ([]*wire.BlockHeader, []ref.DAABlock) {
	hs := make([]*wire.BlockHeader, chainLen)
	blocks := make([]ref.DAABlock, chainLen)
	work := new(big.Int).SetUint64(1)
	work.Lsh(work, 80) // some prior chain work
	var prev bitcoin.Hash32
	prev[0] = 0x42
	groupBase := int64(baseTime) + 100000
	if c.Span < -1000000 {
		groupBase = 4100000000 // the first window lies in the far future, the last one back in the present
	} else if c.Span > 2400000000 {
		groupBase = 1000000
	}
	for i := 0; i < chainLen; i++ {
		bits := bitsClasses[c.Others]
		t := int64(baseTime) + int64(i)*600
		for j, k := range interesting {
			if k == i {
				bits = bitsClasses[c.Bits[j]]
				t = groupBase + int64(c.Times[j])*int64(c.Delta)
				if j >= 3 {
					t += c.Span
				}
			}
		}
		h := &wire.BlockHeader{Version: 1, PrevBlock: prev, Timestamp: uint32(t), Bits: bits, Nonce: uint32(i)}
		hs[i] = h
		prev = *h.BlockHash()
		if i > 0 {
			work = new(big.Int).Add(work, ref.WorkForBits(bits))
		}
		blocks[i] = ref.DAABlock{Time: uint32(t), ChainWork: new(big.Int).Set(work)}
	}
	return hs, blocks
}

// branchOf builds real Branch objects from the headers: a root branch, with a fork branch starting
// at index fork when fork > 0.
func branchOf(hs []*wire.BlockHeader, fork int) *headers.Branch {
	root, err := headers.NewBranch(nil, baseHeight-1, hs[0])
	if err != nil {
		panic(err)
	}
	branch := root
	for i := 1; i < len(hs); i++ {
		if fork == i {
			child, err := headers.NewBranch(branch, baseHeight+i-1, hs[i])
			if err != nil {
				panic(err)
			}
			branch = child
			continue
		}
		if !branch.Add(hs[i]) {
			panic("add failed")
		}
	}
	return branch
}

// buildBranch rebuilds the branch of a target case (headers as in runTargetCase).
func buildBranch(c targetCase, fork int) *headers.Branch {
	hs, _ := caseChain(c)
	return branchOf(hs, fork)
}

func tiePattern(t [3]int8) string {
	switch {
	case t[0] == t[1] && t[1] == t[2]:
		return "all-equal"
	case t[0] == t[1] || t[1] == t[2] || t[0] == t[2]:
		return "tie"
	}
	return "distinct"
}

func targetPart(thorough bool) *result {
	var cases []targetCase
	// the last three are spans of more than 2^31 seconds (far-future / far-past endpoint medians)
	spans := []int64{10 * 600, 144 * 600, 400 * 600, 0, -100 * 600, 72 * 600, 288*600 + 1, 72*600 - 1,
		1<<31 + 5, -(1<<31 + 5), 2500000000}
	deltas := []uint32{1}
	if thorough {
		deltas = []uint32{1, 7200}
	}
	bitsPatterns := [][6]string{}
	for _, cl := range []string{"limit", "mid", "hard"} {
		bitsPatterns = append(bitsPatterns, [6]string{cl, cl, cl, cl, cl, cl})
	}
	for i := 0; i < 6; i++ {
		for _, cl := range []string{"limit", "hard"} {
			p := [6]string{"mid", "mid", "mid", "mid", "mid", "mid"}
			p[i] = cl
			bitsPatterns = append(bitsPatterns, p)
		}
	}
	if !thorough {
		bitsPatterns = append(bitsPatterns[:3], bitsPatterns[3], bitsPatterns[8], bitsPatterns[10], bitsPatterns[14])
	}
	forks := []int{0, 5, 149}
	if thorough {
		forks = []int{0, 4, 5, 148, 149, 75}
	}
	for t := 0; t < 729; t++ {
		var times [6]int8
		x := t
		for i := 0; i < 6; i++ {
			times[i] = int8(x%3) - 1
			x /= 3
		}
		for _, d := range deltas {
			for _, s := range spans {
				for _, b := range bitsPatterns {
					for _, f := range forks {
						cases = append(cases, targetCase{Times: times, Delta: d, Span: s, Bits: b, Others: "mid", Fork: f})
					}
				}
			}
		}
	}
	res := newResult()
	var mu sync.Mutex
	var wg sync.WaitGroup
	workers := runtime.GOMAXPROCS(0)
	for w := 0; w < workers; w++ {
		wg.Add(1)
		go func(w int) {
			defer wg.Done()
			local := newResult()
			for i := w; i < len(cases); i += workers {
				c := cases[i]
				got, want, p := runTargetCase(c)
				local.evaluations++
				tp := "first-" + tiePattern([3]int8{c.Times[0], c.Times[1], c.Times[2]}) + "/last-" + tiePattern([3]int8{c.Times[3], c.Times[4], c.Times[5]})
				if tp != "first-distinct/last-distinct" || c.Span <= 0 || c.Fork != 0 {
					local.nontrivial++
				}
				local.outcomes["target:"+tp]++
				if i%(len(cases)/6+1) == 0 {
					local.samples = append(local.samples, map[string]any{"part": "target", "case": c, "bits": fmt.Sprintf("0x%08x", got)})
				}
				if p != "" {
					local.vs = append(local.vs, mc.Violation{Prop: "C02", Clause: "target-panic", Fingerprint: "target-panic|" + p, Detail: p, History: c})
					continue
				}
				if got != want {
					spanClass := "span-inside"
					switch {
					case c.Span < 0:
						spanClass = "span-negative"
					case c.Span < 72*600:
						spanClass = "span-below-72"
					case c.Span > 288*600:
						spanClass = "span-above-288"
					}
					if tp != "first-distinct/last-distinct" {
						spanClass = "median-tie"
					}
					local.vs = append(local.vs, mc.Violation{Prop: "C02", Clause: "target-mismatch", Fingerprint: "target-mismatch|" + spanClass,
						Detail:  fmt.Sprintf("required bits: implementation 0x%08x, network algorithm 0x%08x (%s, %s, fork at %d)", got, want, tp, spanClass, c.Fork),
						History: c})
				}
			}
			mu.Lock()
			res.merge(local)
			mu.Unlock()
		}(w)
	}
	wg.Wait()
	return res
}

// prunedPart: the target function on a branch whose lower headers are no longer in memory (a stale
// side branch after the main branch was pruned, a restart with a short retained depth): for every
// number of pruned headers 0..149 of the 150-header window, Target either answers exactly what the
// network's algorithm requires (everything it needs is still there) or returns an error - never a
// nil target without an error, never a panic.
func prunedPart(thorough bool) *result {
	res := newResult()
	c := targetCase{Delta: 1, Span: 144 * 600, Bits: [6]string{"mid", "mid", "mid", "mid", "mid", "mid"}, Others: "mid"}
	_, want, _ := runTargetCase(c)
	for pruned := 0; pruned < chainLen; pruned++ {
		for _, fork := range []int{0, 75} {
			var target *big.Int
			var err error
			p := safe(func() {
				b := buildBranch(c, fork)
				b.Prune(pruned)
				target, err = b.Target(ctx, baseHeight+chainLen)
			})
			res.evaluations++
			res.nontrivial++
			hist := map[string]any{"pruned_headers": pruned, "fork_at": fork}
			needed := pruned <= interesting[0] // the lowest header the algorithm reads is index 3
			if fork != 0 {
				needed = true // pruning applies to the fork branch object only; its parent still holds the rest
			}
			switch {
			case p != "":
				res.outcomes["pruned/panic"]++
				res.vs = append(res.vs, mc.Violation{Prop: "C02", Clause: "target-panic", Fingerprint: "target-panic|pruned-branch", Detail: fmt.Sprintf("Target panicked with %d headers pruned: %s", pruned, p), History: hist})
			case err == nil && target == nil:
				res.outcomes["pruned/nil-without-error"]++
				res.vs = append(res.vs, mc.Violation{Prop: "C02", Clause: "target-nil-without-error", Fingerprint: "target-nil-without-error|pruned-branch",
					Detail: fmt.Sprintf("Target returned neither a target nor an error with %d headers pruned (the caller dereferences the target)", pruned), History: hist})
			case err == nil:
				got := bitcoin.ConvertToBits(target, bitcoin.MaxBits)
				res.outcomes["pruned/answered"]++
				if got != want {
					res.vs = append(res.vs, mc.Violation{Prop: "C02", Clause: "target-mismatch", Fingerprint: "target-mismatch|pruned-branch",
						Detail: fmt.Sprintf("required bits with %d headers pruned: implementation 0x%08x, network algorithm 0x%08x", pruned, got, want), History: hist})
				}
			default:
				res.outcomes["pruned/error"]++
				if needed && fork == 0 {
					res.vs = append(res.vs, mc.Violation{Prop: "C02", Clause: "target-error-with-data", Fingerprint: "target-error-with-data|pruned-branch",
						Detail: fmt.Sprintf("Target failed (%v) although every header it needs is in memory (%d pruned)", err, pruned), History: hist})
				}
			}
			if len(res.samples) < 3 {
				res.samples = append(res.samples, map[string]any{"part": "pruned-branch", "case": hist})
			}
		}
	}
	return res
}

// ---------------------------------------------------------------------------------------------
// part 2: bits decoding and crash freedom

type bitsCase struct {
	Bits  uint32 `json:"bits"`
	Want  string `json:"want_hash"` // "above": a header whose hash exceeds the target; "below": one that meets it
	Nonce uint32 `json:"nonce"`
	Path  string `json:"path"` // ProcessHeader | HandleHeadersMessage
}

func expClass(bits uint32) string {
	switch e := bits >> 24; {
	case e == 0:
		return "exponent-0"
	case e < 3:
		return "exponent-1-2"
	case e <= 0x1d:
		return "exponent-3-to-limit"
	case e <= 34:
		return "exponent-above-limit"
	}
	return "exponent-overflowing"
}

func genesisChild(bits, nonce uint32) *wire.BlockHeader {
	g, _ := bitcoin.NewHash32FromStr("000000000019d6689c085ae165831e934ff763ae46a2a6c172b3f1b60a8ce26f")
	return &wire.BlockHeader{Version: 1, PrevBlock: *g, Timestamp: 1231469665, Bits: bits, Nonce: nonce}
}

func bitsPart(thorough bool) *result {
	res := newResult()
	mantissas := []uint32{0, 1, 0x7fff, 0x8000, 0xffff, 0x10000, 0x7fffff, 0x800000, 0xffffff, 0x00ff00, 0x0000ff}
	var cases []bitsCase
	for e := 0; e < 256; e++ {
		for _, m := range mantissas {
			bits := uint32(e)<<24 | m
			target, class := ref.DecodeCompact(bits)
			// a nonce whose hash exceeds the target (always exists quickly unless the target is all-ones)
			if class != ref.CompactOK || target.BitLen() <= 255 {
				for n := uint32(0); n < 64; n++ {
					h := genesisChild(bits, n)
					if class != ref.CompactOK || h.BlockHash().Value().Cmp(target) > 0 {
						cases = append(cases, bitsCase{bits, "above", n, "ProcessHeader"}, bitsCase{bits, "above", n, "HandleHeadersMessage"})
						break
					}
				}
			}
			// a nonce whose hash meets the target: only findable for very large targets
			if class == ref.CompactOK && target.BitLen() >= 244 {
				for n := uint32(0); n < 1<<15; n++ {
					h := genesisChild(bits, n)
					if h.BlockHash().Value().Cmp(target) <= 0 {
						cases = append(cases, bitsCase{bits, "below", n, "ProcessHeader"})
						break
					}
				}
			}
		}
	}
	for i, c := range cases {
		target, class := ref.DecodeCompact(c.Bits)
		h := genesisChild(c.Bits, c.Nonce)
		store := vstore.New()
		repo := headers.NewRepository(&headers.Config{Network: bitcoin.MainNet, MaxBranchDepth: 144}, store)
		repo.InitializeWithGenesis()
		var err error
		p := safe(func() {
			if c.Path == "ProcessHeader" {
				err = repo.ProcessHeader(ctx, h)
			} else {
				buf := &bytes.Buffer{}
				wire.WriteVarInt(buf, 0, 1)
				h.Serialize(buf)
				wire.WriteVarInt(buf, 0, 0)
				err = repo.HandleHeadersMessage(ctx, &wire.MessageHeader{}, buf)
			}
		})
		res.evaluations++
		cls := map[ref.CompactClass]string{ref.CompactOK: "well-defined", ref.CompactNegative: "negative", ref.CompactOverflow: "overflow"}[class]
		if class == ref.CompactOK && target.Sign() == 0 {
			cls = "zero-target"
		}
		verdict := "accepted"
		if err != nil {
			verdict = "refused"
		}
		if p != "" {
			verdict = "panic"
		}
		res.outcomes[fmt.Sprintf("bits:%s/hash-%s/%s", cls, c.Want, verdict)]++
		if cls != "well-defined" || c.Bits>>24 < 4 || c.Bits>>24 > 0x1d {
			res.nontrivial++
		}
		if i%(len(cases)/5+1) == 0 {
			res.samples = append(res.samples, map[string]any{"part": "bits", "bits": fmt.Sprintf("0x%08x", c.Bits), "hash": c.Want, "path": c.Path, "verdict": verdict})
		}
		if p != "" {
			res.vs = append(res.vs, mc.Violation{Prop: "C02", Clause: "bits-panic", Fingerprint: fmt.Sprintf("bits-panic|%s|%s", expClass(c.Bits), cls),
				Detail: fmt.Sprintf("%s with bits 0x%08x panicked: %s", c.Path, c.Bits, p), History: c})
			continue
		}
		if class == ref.CompactOK && c.Want == "above" && err == nil {
			res.vs = append(res.vs, mc.Violation{Prop: "C02", Clause: "accepted-without-work", Fingerprint: fmt.Sprintf("accepted-without-work|%s|%s", cls, expClass(c.Bits)),
				Detail: fmt.Sprintf("header with bits 0x%08x (target %s) and hash %s above the target was accepted", c.Bits, target.Text(16), h.BlockHash()), History: c})
		}
	}
	return res
}

// ---------------------------------------------------------------------------------------------
// part 3: real chain and single-field mutations

type fixture struct {
	file   string
	height int
	work   string
}

func repoRoot() string {
	if r := os.Getenv("VERIF_REPO"); r != "" {
		return r
	}
	return "/repo"
}

type mutation struct {
	name string
	f    func(h *wire.BlockHeader)
}

func mutations() []mutation {
	step := func(d int32) func(h *wire.BlockHeader) {
		return func(h *wire.BlockHeader) { h.Bits = uint32(int32(h.Bits) + d) }
	}
	return []mutation{
		{"version+1", func(h *wire.BlockHeader) { h.Version++ }},
		{"version-1", func(h *wire.BlockHeader) { h.Version-- }},
		{"prev-bit", func(h *wire.BlockHeader) { h.PrevBlock[31] ^= 1 }},
		{"merkle-bit", func(h *wire.BlockHeader) { h.MerkleRoot[0] ^= 1 }},
		{"time+1", func(h *wire.BlockHeader) { h.Timestamp++ }},
		{"time-1", func(h *wire.BlockHeader) { h.Timestamp-- }},
		{"time+600", func(h *wire.BlockHeader) { h.Timestamp += 600 }},
		{"time-600", func(h *wire.BlockHeader) { h.Timestamp -= 600 }},
		{"nonce+1", func(h *wire.BlockHeader) { h.Nonce++ }},
		{"nonce-1", func(h *wire.BlockHeader) { h.Nonce-- }},
		{"bits-easier-step", step(1)},
		{"bits-harder-step", step(-1)},
		{"bits-limit", func(h *wire.BlockHeader) { h.Bits = 0x1d00ffff }},
		{"bits-exponent+1", func(h *wire.BlockHeader) { h.Bits += 1 << 24 }},
		{"bits-exponent-1", func(h *wire.BlockHeader) { h.Bits -= 1 << 24 }},
	}
}

// demotedPart: the real chain keeps being checked with the right heights after it has lost the
// lead: the 725000 fixture up to 725200, a heavier (unchecked, mock) competing branch from 725195
// that overtakes it, Clean / Save (consolidation re-hangs the real chain as a side branch), then
// the real headers 725201.. must all be accepted, with difficulty checking on, on the demoted chain;
// and the same without any maintenance in between.
func demotedPart(thorough bool) *result {
	res := newResult()
	data, err := os.ReadFile(repoRoot() + "/headers/test_fixtures/headers_725000.txt")
	var hs []*wire.BlockHeader
	if err == nil {
		err = json.Unmarshal(data, &hs)
	}
	if err != nil || len(hs) < 230 {
		res.vs = append(res.vs, mc.Violation{Prop: "C02", Clause: "fixture", Fingerprint: "fixture", Detail: fmt.Sprint(err, len(hs))})
		return res
	}
	work, _ := new(big.Int).SetString("134b2eb2b14bbedbad9a14b", 16)
	// (The repository is started with the hook VerifMockRooted instead of the MockLatest test
	// helper: MockLatest's root branch is not genesis-rooted, consolidate finds no oldest branch on it
	// and Clean / Save cannot run.)
	for _, maint := range []string{"none", "clean", "save"} {
		repo := headers.NewRepository(headers.DefaultConfig(), vstore.New())
		repo.DisableDifficulty()
		repo.VerifMockRooted(hs[0], 725000, work)
		bad := ""
		p := safe(func() {
			for i := 1; i <= 200; i++ {
				if i == 150 {
					repo.EnableDifficulty()
				}
				if err := repo.ProcessHeader(ctx, hs[i]); err != nil {
					bad = fmt.Sprintf("real header %d refused: %v", 725000+i, err)
					return
				}
			}
			// competing branch from 725195: eight headers with much lower targets, not checked
			repo.DisableDifficulty()
			prev := *hs[195].BlockHash()
			for k := 0; k < 8; k++ {
				h := &wire.BlockHeader{Version: 1, PrevBlock: prev, Timestamp: hs[195].Timestamp + uint32(k+1)*600, Bits: 0x17100000, Nonce: uint32(900 + k)}
				if err := repo.ProcessHeader(ctx, h); err != nil {
					bad = fmt.Sprintf("competing header %d refused: %v", k, err)
					return
				}
				prev = *h.BlockHash()
			}
			repo.EnableDifficulty()
			if repo.LastHash() != prev {
				bad = "the competing branch did not take the lead (fixture assumption)"
				return
			}
			switch maint {
			case "clean":
				if err := repo.Clean(ctx); err != nil {
					bad = "Clean: " + err.Error()
					return
				}
			case "save":
				if err := repo.Save(ctx); err != nil {
					bad = "Save: " + err.Error()
					return
				}
			}
			for i := 201; i < 230; i++ {
				if err := repo.ProcessHeader(ctx, hs[i]); err != nil {
					bad = fmt.Sprintf("real header %d refused on the demoted chain after %s: %v", 725000+i, maint, err)
					return
				}
				if got := repo.HashHeight(*hs[i].BlockHash()); got != 725000+i {
					bad = fmt.Sprintf("real header %d is recorded at height %d after %s", 725000+i, got, maint)
					return
				}
			}
		})
		res.evaluations += 29
		res.nontrivial += 29
		res.outcomes["demoted-real-chain/"+maint+"/"+fmt.Sprint(bad == "" && p == "")]++
		if p != "" {
			bad = "panic: " + p
		}
		if bad != "" {
			res.vs = append(res.vs, mc.Violation{Prop: "C02", Clause: "real-header-refused-on-demoted-chain", Fingerprint: "real-header-refused-on-demoted-chain|" + maint,
				Detail: bad, History: map[string]any{"maintenance": maint}})
		}
	}
	res.samples = append(res.samples, map[string]any{"part": "demoted-real-chain", "maintenance": []string{"none", "clean", "save"}})
	return res
}

func chainPart(thorough bool) *result {
	res := newResult()
	fixtures := []fixture{
		{"headers/test_fixtures/headers_556000.txt", 556000, "d167cf38dd7a9c078a40d5"},
		{"headers/test_fixtures/headers_725000.txt", 725000, "134b2eb2b14bbedbad9a14b"},
	}
	window := 120
	if thorough {
		window = 100000
	}
	type run struct {
		fx     fixture
		net    bitcoin.Network
		window int
	}
	runs := []run{{fixtures[0], bitcoin.MainNet, window}, {fixtures[1], bitcoin.MainNet, window}}
	// the same rules on a repository configured for another network (no chain split table): the
	// difficulty rules do not depend on the split configuration
	otherWindow := 25
	if thorough {
		otherWindow = 1000
	}
	runs = append(runs, run{fixtures[1], bitcoin.TestNet, otherWindow})
	for _, rn := range runs {
		fx, window := rn.fx, rn.window
		data, err := os.ReadFile(repoRoot() + "/" + fx.file)
		if err != nil {
			res.vs = append(res.vs, mc.Violation{Prop: "C02", Clause: "fixture", Fingerprint: "fixture", Detail: err.Error()})
			continue
		}
		var hs []*wire.BlockHeader
		if err := json.Unmarshal(data, &hs); err != nil {
			res.vs = append(res.vs, mc.Violation{Prop: "C02", Clause: "fixture", Fingerprint: "fixture", Detail: err.Error()})
			continue
		}
		repo := headers.NewRepository(&headers.Config{Network: rn.net, MaxBranchDepth: 144}, vstore.New())
		repo.DisableDifficulty()
		work, _ := new(big.Int).SetString(fx.work, 16)
		height := fx.height
		for i, h := range hs {
			if rn.net != bitcoin.MainNet && i > 150+window+1 {
				break
			}
			if i == 150 {
				repo.EnableDifficulty()
			}
			if i == 0 {
				repo.MockLatest(ctx, h, height, work)
				height++
				continue
			}
			if i > 150 && i <= 150+window {
				// every single-field mutation of this real header must be refused with the right class
				for _, m := range mutations() {
					mh := h.Copy()
					m.f(&mh)
					target, class := ref.DecodeCompact(mh.Bits)
					meets := class == ref.CompactOK && target.Sign() > 0 && mh.BlockHash().Value().Cmp(target) <= 0
					var err error
					tipBefore := repo.LastHash()
					p := safe(func() { err = repo.ProcessHeader(ctx, &mh) })
					res.evaluations++
					res.nontrivial++
					cause := "nil"
					if err != nil {
						cause = errors.Cause(err).Error()
					}
					res.outcomes["mutant:"+m.name+"/"+cause]++
					switch {
					case p != "":
						res.vs = append(res.vs, mc.Violation{Prop: "C02", Clause: "mutant-panic", Fingerprint: "mutant-panic|" + m.name, Detail: fmt.Sprintf("height %d mutation %s: %s", height, m.name, p)})
					case err == nil || repo.LastHash() != tipBefore:
						res.vs = append(res.vs, mc.Violation{Prop: "C02", Clause: "mutant-accepted", Fingerprint: "mutant-accepted|" + m.name,
							Detail: fmt.Sprintf("height %d: real header with mutation %s was accepted", height, m.name), History: map[string]any{"fixture": fx.file, "index": i, "mutation": m.name}})
					case !meets && errors.Cause(err) != headers.ErrNotEnoughWork:
						res.vs = append(res.vs, mc.Violation{Prop: "C02", Clause: "mutant-wrong-class", Fingerprint: "mutant-wrong-class|" + m.name + "|" + cause,
							Detail: fmt.Sprintf("height %d mutation %s: hash does not meet the target but the answer is %q", height, m.name, cause), History: map[string]any{"fixture": fx.file, "index": i, "mutation": m.name}})
					}
				}
			}
			var err error
			p := safe(func() { err = repo.ProcessHeader(ctx, h) })
			res.evaluations++
			res.outcomes[fmt.Sprintf("real-header:%t", err == nil && p == "")]++
			if err != nil || p != "" {
				res.vs = append(res.vs, mc.Violation{Prop: "C02", Clause: "real-header-refused", Fingerprint: fmt.Sprintf("real-header-refused|%s", fx.file),
					Detail: fmt.Sprintf("real mainnet header at height %d refused: %v %s", height, err, p), History: map[string]any{"fixture": fx.file, "index": i}})
				break
			}
			height++
		}
		res.samples = append(res.samples, map[string]any{"part": "real-chain", "fixture": fx.file, "headers": len(hs), "mutation_window": window, "configured_network": fmt.Sprint(rn.net)})
	}
	return res
}

func main() {
	tier := flag.String("tier", "quick", "")
	propFlag := flag.String("prop", "C02", "C02, or C08 for the bad-work / bad-bits verdict parts only")
	_ = flag.String("replay", "", "")
	mine := flag.Bool("mine-fork", false, "find the nonce of the fork fixture header (one-off)")
	mineB := flag.Bool("mine-boundary", false, "find the nonce of the activation-boundary fixture header (one-off)")
	mineP := flag.Bool("mine-position", false, "find the nonces of the new-branch fixture headers (one-off)")
	flag.Parse()
	if *mine {
		mineFork()
		return
	}
	if *mineB {
		mineBoundary()
		return
	}
	if *mineP {
		minePosition()
		return
	}
	start := time.Now()
	thorough := *tier == "thorough"
	total := newResult()
	parts := map[string]*result{}
	// C08 (every submission gets the reference verdict) uses the parts in which real proof of work
	// is offered with the right and the wrong bits on main and side branches: the "bad work or
	// bits" verdict depends on the submitted header's own branch, not on the reported one
	c08 := map[string]bool{"own-branch-target": true, "activation-boundary": true, "demoted-real-chain": true, "position-in-tree": true}
	for _, p := range []struct {
		name string
		f    func(bool) *result
	}{{"target-function", targetPart}, {"target-on-pruned-branch", prunedPart}, {"bits-decoding", bitsPart}, {"real-chain", chainPart}, {"own-branch-target", forkPart}, {"activation-boundary", boundaryPart}, {"demoted-real-chain", demotedPart}, {"position-in-tree", positionPart}, {"small-number-arithmetic", precisionPart}, {"mark-unmark-in-pruned-real-chain", markPrunedPart}} {
		if *propFlag == "C08" && !c08[p.name] {
			continue
		}
		if *propFlag == "C18" && p.name != "mark-unmark-in-pruned-real-chain" {
			continue // C18: proofs for blocks of the real chain after pruned history was brought back
		}
		t0 := time.Now()
		r := p.f(thorough)
		for i := range r.vs {
			r.vs[i].Prop = *propFlag
		}
		parts[p.name] = r
		fmt.Fprintf(os.Stderr, "%s %-16s evaluations=%d violations=%d %.1fs\n", *propFlag, p.name, r.evaluations, len(r.vs), time.Since(t0).Seconds())
		total.merge(r)
	}
	var keys []string
	for k := range total.outcomes {
		keys = append(keys, k)
	}
	sort.Strings(keys)
	per := map[string]any{}
	for n, r := range parts {
		per[n] = map[string]int{"evaluations": r.evaluations, "nontrivial": r.nontrivial}
	}
	if len(total.samples) > 14 {
		total.samples = total.samples[:14]
	}
	level := "exploration"
	if *propFlag == "C08" || *propFlag == "C18" {
		level = "model_checking" // merged into the hdrmc record of C08, whose level is the one claimed
	}
	ev := &mc.Evidence{PropertyID: *propFlag, Tier: *tier, Level: level,
		Coverage: map[string]any{
			"evaluations":         total.evaluations,
			"distinct_nontrivial": total.nontrivial,
			"rule":                "complete Cartesian spaces, every element run through the real code: (0) the target function on a branch with 0..149 of its 150 window headers pruned from memory (root and fork branch): the required answer or an error, never a nil target without error; (1) target function: 3^6 timestamp order/tie patterns of the six headers that matter x time-span classes {below 72 blocks, inside, above 288, zero, negative, at the clamps} x bits patterns x branch shapes (root / fork straddling either median window), compared with a reference implementation of the network's algorithm; non-trivial = a tie in a median window, a non-positive span or a fork branch; (2) bits: every exponent byte 0..255 x 11 mantissas x {hash above target, hash meeting the target where one can be found} through ProcessHeader and HandleHeadersMessage; non-trivial = negative / overflow / zero target or exponent outside 4..0x1d; (8) mined headers claiming the proof-of-work limit offered, with checking on, as the FIRST header of a new branch: off the fork (which requires half the limit: refused as invalid target, unknown afterwards) and off the main branch (which requires the limit: accepted); (9) self-consistent chains near the proof-of-work limit (window work about 2^39) with block spacings 300..900 s grown from 147 to 450 (thorough 900) headers, Branch.Target compared with the reference at every height; (3) both real mainnet fixture chains with difficulty checking on and 15 single-field mutations of every header in a window (the second chain also on a repository configured for a network without chain split table); every mutant is non-trivial. All cases distinct by construction",
			"exhaustive":          true,
			"outcomes":            total.outcomes,
			"parts":               per,
			"samples":             total.samples,
		},
		Assumptions: []string{
			"headers that meet a small target cannot be constructed (no mining): the accept side is covered by the real chain, the refuse side by every encoding",
			"negative and overflowing compact encodings: only crash freedom is required (the statement does not fix a verdict)",
			"reference: /verif/ref/daa.go and compact.go written from the published node algorithm",
		},
		Wall: time.Since(start).Seconds()}
	os.Exit(mc.Finish(ev, total.vs))
}
