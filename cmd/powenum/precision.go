package main

import (
	"fmt"
	"math/big"

	"verif/mc"
	"verif/ref"

	"github.com/tokenized/bitcoin_reader/headers"
	"github.com/tokenized/pkg/bitcoin"
	"github.com/tokenized/pkg/wire"
)

// part 9: arithmetic on small numbers. Near the proof-of-work limit the chain work of a 144-block
// window is only about 2^39, so the order of the integer operations of the algorithm shows in the
// last mantissa bit of the result (it never does at mainnet difficulty). Self-consistent chains -
// every header carries the bits the reference requires at its height - with block spacings from
// 300 s to 900 s are grown from 147 to 600 headers on a real Branch, and Branch.Target is compared
// with the reference at every height.
func precisionPart(thorough bool) *result {
	res := newResult()
	spacings := []uint32{300, 350, 400, 450, 500, 550, 600, 900}
	top := 450
	if thorough {
		spacings = append(spacings, 310, 333, 377, 420, 475, 525, 575, 590, 599, 601, 650)
		top = 900
	}
	for _, spacing := range spacings {
		limit := uint32(0x1d00ffff)
		var blocks []ref.DAABlock
		work := new(big.Int).Lsh(big.NewInt(1), 40)
		var prev bitcoin.Hash32
		prev[0] = 0x43
		var branch *headers.Branch
		mismatches := 0
		for i := 0; i < top; i++ {
			bits := limit
			height := baseHeight + i
			if i >= 147 {
				bits = ref.DAARequiredBits(height, func(h int) ref.DAABlock { return blocks[h-baseHeight] })
				var got uint32
				var terr error
				p := safe(func() {
					target, err := branch.Target(ctx, height)
					if err != nil {
						terr = err
						return
					}
					got = bitcoin.ConvertToBits(target, bitcoin.MaxBits)
				})
				res.evaluations++
				res.nontrivial++
				if p != "" || terr != nil || got != bits {
					mismatches++
					if mismatches == 1 {
						res.vs = append(res.vs, mc.Violation{Prop: "C02", Clause: "target-precision", Fingerprint: fmt.Sprintf("target-precision|spacing-%d", spacing),
							Detail:  fmt.Sprintf("self-consistent chain near the proof-of-work limit, %d s block spacing, height index %d: the network requires bits 0x%08x, Branch.Target gives 0x%08x (error %v, panic %q)", spacing, i, bits, got, terr, p),
							History: map[string]any{"spacing": spacing, "index": i}})
					}
				}
			}
			t := baseTime + uint32(i)*spacing
			h := &wire.BlockHeader{Version: 1, PrevBlock: prev, Timestamp: t, Bits: bits, Nonce: uint32(i)}
			prev = *h.BlockHash()
			if i == 0 {
				b, err := headers.NewBranch(nil, baseHeight-1, h)
				if err != nil {
					panic(err)
				}
				branch = b
			} else {
				if !branch.Add(h) {
					panic("add failed")
				}
				work = new(big.Int).Add(work, ref.WorkForBits(bits))
			}
			blocks = append(blocks, ref.DAABlock{Time: t, ChainWork: new(big.Int).Set(work)})
		}
		res.outcomes[fmt.Sprintf("precision/spacing-%d/mismatches-%d", spacing, mismatches)]++
	}
	return res
}
