package main

import (
	"bytes"
	"encoding/json"
	"fmt"
	"math/big"
	"os"

	"verif/mc"
	"verif/vstore"

	"github.com/tokenized/bitcoin_reader/headers"
	"github.com/tokenized/pkg/merkle_proof"
	"github.com/tokenized/pkg/wire"
)

// markPrunedPart: the real chain after a header was marked invalid and unmarked again. The 556000
// fixture is processed up to 557500 with checking on, the repository is cleaned with 300 headers
// kept in memory (hook VerifClean: Clean with another depth; the production depth needs a chain
// of more than 10000 real headers, which the fixtures do not have), a header of the real chain is
// marked invalid - one that is still in memory far above the lowest one held, the lowest one held,
// one just below it, ones deep in the pruned part - and unmarked; the real headers from there on
// are offered again and every one must be accepted: the history the difficulty algorithm needs has
// to be there again.
func markPrunedPart(thorough bool) *result {
	res := newResult()
	data, err := os.ReadFile(repoRoot() + "/headers/test_fixtures/headers_556000.txt")
	var hs []*wire.BlockHeader
	if err == nil {
		err = json.Unmarshal(data, &hs)
	}
	if err != nil || len(hs) < 1600 {
		res.vs = append(res.vs, mc.Violation{Prop: "C02", Clause: "fixture", Fingerprint: "fixture", Detail: fmt.Sprint(err, len(hs))})
		return res
	}
	work, _ := new(big.Int).SetString("d167cf38dd7a9c078a40d5", 16)
	const fed, kept = 1500, 300
	lowest := fed - kept // index of the lowest header held after the clean
	marks := []int{lowest + 200, lowest + 147, lowest + 146, lowest + 145, lowest + 1, lowest, lowest - 1, lowest - 200, lowest - 250, 900}
	if thorough {
		marks = append(marks, lowest+150, lowest+148, lowest+144, lowest+2, lowest-2, lowest-146, lowest-147, lowest-148, 1000, 769, 400)
	}
	for _, m := range marks {
		repo := headers.NewRepository(headers.DefaultConfig(), vstore.New())
		repo.DisableDifficulty()
		repo.VerifMockRooted(hs[0], 556000, work)
		bad := ""
		p := safe(func() {
			for i := 1; i <= fed; i++ {
				if i == 150 {
					repo.EnableDifficulty()
				}
				if err := repo.ProcessHeader(ctx, hs[i]); err != nil {
					bad = fmt.Sprintf("real header %d refused: %v", 556000+i, err)
					return
				}
			}
			if err := repo.VerifClean(ctx, kept); err != nil {
				bad = "clean: " + err.Error()
				return
			}
			// the mock root stands for 556000 headers that are not there: the ten header files below
			// it get placeholder records, so that bringing back 10000 headers of pruned history finds
			// files to read (the records below the root are never looked at: the difficulty algorithm
			// reaches 147 headers down)
			for f := 546; f < 556; f++ {
				placeholder := &bytes.Buffer{}
				placeholder.WriteByte(1)
				for k := 0; k < 1000; k++ {
					ph := &wire.BlockHeader{Version: 1, Bits: 0x1d00ffff, Nonce: uint32(f*1000 + k)} // distinct hashes
					headers.HeaderData{Hash: *ph.BlockHash(), Header: ph, AccumulatedWork: work}.Serialize(placeholder)
				}
				repo.VerifStore().Write(ctx, fmt.Sprintf("headers/%08x", f), placeholder.Bytes(), nil)
			}
			if err := repo.MarkHeaderInvalid(ctx, *hs[m].BlockHash()); err != nil {
				bad = fmt.Sprintf("MarkHeaderInvalid(%d): %v", 556000+m, err)
				return
			}
			if repo.Height() != 556000+m-1 {
				bad = fmt.Sprintf("after marking %d the reported height is %d", 556000+m, repo.Height())
				return
			}
			// while the header is marked: merkle proofs for blocks below it (a one-transaction reading
			// of a block: the transaction id is the merkle root, the path is empty) report the block's
			// true height and that it is on the best chain - also for the heights just brought back
			// from the header files
			for _, j := range []int{m - 1, m - 50, m - 147, m - 300, lowest, lowest - 1, lowest - 150, 1100, 1001, 1000, 999, 800, 500, 151} {
				if j < 1 || j >= m {
					continue
				}
				for _, withHeader := range []bool{true, false} {
					root := hs[j].MerkleRoot
					proof := &merkle_proof.MerkleProof{Index: 0, TxID: &root}
					if withHeader {
						proof.BlockHeader = hs[j]
					} else {
						h := *hs[j].BlockHash()
						proof.BlockHash = &h
					}
					height, best, err := repo.VerifyMerkleProof(ctx, proof)
					res.evaluations++
					if err != nil || height != 556000+j || !best {
						bad = fmt.Sprintf("after header %d was marked invalid (lowest header in memory before: %d): proof for block %d (with header: %t) answered (%d, %t, %v), want (%d, true)", 556000+m, 556000+lowest, 556000+j, withHeader, height, best, err, 556000+j)
						return
					}
				}
			}
			if err := repo.MarkHeaderNotInvalid(ctx, *hs[m].BlockHash()); err != nil {
				bad = fmt.Sprintf("MarkHeaderNotInvalid(%d): %v", 556000+m, err)
				return
			}
			for i := m; i <= m+160 && i < len(hs); i++ {
				if err := repo.ProcessHeader(ctx, hs[i]); err != nil {
					bad = fmt.Sprintf("real header %d refused after header %d was marked invalid and unmarked (lowest header in memory before: %d): %v", 556000+i, 556000+m, 556000+lowest, err)
					return
				}
			}
		})
		res.evaluations += 161
		res.nontrivial += 161
		res.outcomes[fmt.Sprintf("mark-unmark-in-pruned-real-chain/lowest%+d/%t", m-lowest, bad == "" && p == "")]++
		if p != "" {
			bad = "panic: " + p
		}
		if bad != "" {
			res.vs = append(res.vs, mc.Violation{Prop: "C02", Clause: "real-header-refused-after-mark-unmark", Fingerprint: fmt.Sprintf("real-header-refused-after-mark-unmark|lowest%+d", m-lowest),
				Detail: bad, History: map[string]any{"marked_height": 556000 + m, "lowest_in_memory": 556000 + lowest}})
		}
	}
	res.samples = append(res.samples, map[string]any{"part": "mark-unmark-in-pruned-real-chain", "marked_relative_to_lowest_in_memory": marks})
	return res
}
