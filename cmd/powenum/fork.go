package main

import (
	"fmt"
	"math/big"
	"os"
	"runtime"
	"sync"
	"sync/atomic"

	"verif/mc"
	"verif/ref"
	"verif/vstore"

	"github.com/pkg/errors"
	"github.com/tokenized/bitcoin_reader/headers"
	"github.com/tokenized/pkg/bitcoin"
	"github.com/tokenized/pkg/wire"
)

// part 4: the required bits are those of the header's OWN branch. A main branch (spacing 600 s,
// requires the proof-of-work limit) and a fork from it (spacing 300 s, requires half the limit)
// are built with difficulty checking off; then, with checking on, a header with real proof of work
// for the main branch's bits is offered on the fork: it must be refused as invalid target. The
// nonce was found once by `powenum -mine-fork` (about 2^32 hashes) and is fixed here because the
// chain is deterministic; a stale fixture is a harness error, not a verdict.
const (
	forkNonce     = uint32(2903815898)
	forkTimestamp = uint32(1600048900)
)

type forkFixture struct {
	repo     *headers.Repository
	forkTip  *wire.BlockHeader
	height   int
	wantBits uint32 // what the fork requires
}

func buildForkFixture() (*forkFixture, error) {
	f, _, err := buildForkFixtureChains()
	return f, err
}

// buildForkFixtureChains also returns the headers of both branches (base header first for main).
func buildForkFixtureChains() (*forkFixture, map[string][]*wire.BlockHeader, error) {
	cfg := headers.DefaultConfig()
	cfg.MaxBranchDepth = 1000 // the fork starts 155 below the tip of the finished main branch
	repo := headers.NewRepository(cfg, vstore.New())
	repo.DisableDifficulty()
	limit := uint32(0x1d00ffff)
	base := &wire.BlockHeader{Version: 1, Timestamp: baseTime, Bits: limit, Nonce: 1}
	work := new(big.Int).Lsh(big.NewInt(1), 80)
	repo.MockLatest(ctx, base, baseHeight, work)
	prev := *base.BlockHash()
	var mainHashes []bitcoin.Hash32
	chains := map[string][]*wire.BlockHeader{"main": {base}}
	var mainTimes []uint32
	for i := 1; i <= 160; i++ {
		h := &wire.BlockHeader{Version: 1, PrevBlock: prev, Timestamp: baseTime + uint32(i)*600, Bits: limit, Nonce: uint32(i)}
		if err := repo.ProcessHeader(ctx, h); err != nil {
			return nil, nil, errors.Wrapf(err, "main %d", i)
		}
		prev = *h.BlockHash()
		mainHashes = append(mainHashes, prev)
		chains["main"] = append(chains["main"], h)
		mainTimes = append(mainTimes, h.Timestamp)
	}
	// fork after main header 5, 152 headers 300 s apart
	prev = mainHashes[4]
	t := mainTimes[4]
	var tip *wire.BlockHeader
	for i := 1; i <= 152; i++ {
		t += 300
		h := &wire.BlockHeader{Version: 1, PrevBlock: prev, Timestamp: t, Bits: limit, Nonce: uint32(1000 + i)}
		if err := repo.ProcessHeader(ctx, h); err != nil {
			return nil, nil, errors.Wrapf(err, "fork %d", i)
		}
		prev = *h.BlockHash()
		tip = h
		chains["fork"] = append(chains["fork"], h)
	}
	if repo.Height() != baseHeight+160 {
		return nil, nil, fmt.Errorf("main branch is not the most-work branch (height %d)", repo.Height())
	}
	return &forkFixture{repo: repo, forkTip: tip, height: baseHeight + 5 + 153}, chains, nil
}

func forkCandidate(f *forkFixture, ts, nonce uint32) *wire.BlockHeader {
	return &wire.BlockHeader{Version: 1, PrevBlock: *f.forkTip.BlockHash(), Timestamp: ts, Bits: 0x1d00ffff, Nonce: nonce}
}

func mineFork() {
	f, err := buildForkFixture()
	if err != nil {
		fmt.Println("fixture:", err)
		os.Exit(2)
	}
	target, _ := ref.DecodeCompact(0x1d00ffff)
	ts := f.forkTip.Timestamp + 300
	var found atomic.Bool
	var wg sync.WaitGroup
	workers := runtime.GOMAXPROCS(0)
	for w := 0; w < workers; w++ {
		wg.Add(1)
		go func(w int) {
			defer wg.Done()
			h := forkCandidate(f, ts, 0)
			for n := uint64(w); n < 1<<32 && !found.Load(); n += uint64(workers) {
				h.Nonce = uint32(n)
				if h.BlockHash().Value().Cmp(target) <= 0 {
					if !found.Swap(true) {
						fmt.Printf("MINED nonce=%d time=%d hash=%s\n", h.Nonce, h.Timestamp, h.BlockHash())
					}
					return
				}
			}
		}(w)
	}
	wg.Wait()
	if !found.Load() {
		fmt.Println("not found in the nonce range; bump the timestamp")
	}
}

func forkPart(thorough bool) *result {
	res := newResult()
	f, err := buildForkFixture()
	if err != nil {
		fmt.Println("HARNESS ERROR: fork fixture:", err)
		os.Exit(2)
	}
	h := forkCandidate(f, forkTimestamp, forkNonce)
	target, _ := ref.DecodeCompact(h.Bits)
	if h.BlockHash().Value().Cmp(target) > 0 {
		fmt.Println("HARNESS ERROR: the mined fork header no longer has valid proof of work (fixture chain changed); re-run powenum -mine-fork")
		os.Exit(2)
	}
	f.repo.EnableDifficulty()
	var perr error
	p := safe(func() { perr = f.repo.ProcessHeader(ctx, h) })
	res.evaluations++
	res.nontrivial++
	cause := "nil"
	if perr != nil {
		cause = errors.Cause(perr).Error()
	}
	res.outcomes["fork-header-with-main-branch-bits/"+cause]++
	res.samples = append(res.samples, map[string]any{"part": "own-branch-target", "offered_bits": "0x1d00ffff (what the main branch requires)", "fork_requires": "0x1c7fff80", "answer": cause})
	switch {
	case p != "":
		res.vs = append(res.vs, mc.Violation{Prop: "C02", Clause: "fork-target-panic", Fingerprint: "fork-target-panic", Detail: p})
	case errors.Cause(perr) != headers.ErrInvalidTarget:
		res.vs = append(res.vs, mc.Violation{Prop: "C02", Clause: "target-of-another-branch", Fingerprint: "target-of-another-branch|" + cause,
			Detail: fmt.Sprintf("a header with valid proof of work for bits 0x1d00ffff (required on the most-work branch) offered on a fork that requires 0x1c7fff80 at height %d was answered %q instead of invalid target", f.height, cause)})
	}
	return res
}
