// Package ref holds the specification-side reference models. They are written independently of
// the implementation (no calls into github.com/tokenized/... for the logic they define).
package ref

import (
	"math/big"
)

var (
	two256 = new(big.Int).Lsh(big.NewInt(1), 256)
	// PowLimit is the proof-of-work limit of mainnet: 0x1d00ffff decoded.
	PowLimit = new(big.Int).Lsh(big.NewInt(0xffff), 8*(0x1d-3))
)

// CompactClass describes how an encoding is to be read.
type CompactClass int

const (
	CompactOK       CompactClass = iota // sign bit clear, no overflow: target is well defined
	CompactNegative                     // sign bit set with non-zero mantissa
	CompactOverflow                     // value needs more than 256 bits
)

// DecodeCompact decodes the "bits" field as the network does (arith_uint256::SetCompact).
func DecodeCompact(bits uint32) (*big.Int, CompactClass) {
	size := bits >> 24
	word := bits & 0x007fffff
	target := new(big.Int)
	if size <= 3 {
		word >>= 8 * (3 - size)
		target.SetUint64(uint64(word))
	} else {
		target.SetUint64(uint64(word))
		target.Lsh(target, uint(8*(size-3)))
	}
	class := CompactOK
	if word != 0 && bits&0x00800000 != 0 {
		class = CompactNegative
	}
	if word != 0 && (size > 34 || (word > 0xff && size > 33) || (word > 0xffff && size > 32)) {
		class = CompactOverflow
	}
	return target, class
}

// EncodeCompact encodes a target as the network does (arith_uint256::GetCompact, positive).
func EncodeCompact(target *big.Int) uint32 {
	size := uint32((target.BitLen() + 7) / 8)
	var compact uint32
	if size <= 3 {
		compact = uint32(target.Uint64()) << (8 * (3 - size))
	} else {
		t := new(big.Int).Rsh(target, uint(8*(size-3)))
		compact = uint32(t.Uint64())
	}
	if compact&0x00800000 != 0 {
		compact >>= 8
		size++
	}
	return compact | size<<24
}

// WorkForTarget is the network's GetBlockProof: 2^256 / (target+1).
func WorkForTarget(target *big.Int) *big.Int {
	d := new(big.Int).Add(target, big.NewInt(1))
	return new(big.Int).Div(two256, d)
}

// WorkForBits returns the work represented by a header with the given bits (zero when the
// encoding has no well defined positive target).
func WorkForBits(bits uint32) *big.Int {
	t, class := DecodeCompact(bits)
	if class != CompactOK || t.Sign() == 0 {
		return new(big.Int)
	}
	return WorkForTarget(t)
}
