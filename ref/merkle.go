package ref

import "crypto/sha256"

// DoubleSha256 is the hash used for txids, block hashes and merkle nodes.
func DoubleSha256(b []byte) Hash {
	a := sha256.Sum256(b)
	return sha256.Sum256(a[:])
}

func merkleParent(l, r Hash) Hash {
	var b [64]byte
	copy(b[:32], l[:])
	copy(b[32:], r[:])
	return DoubleSha256(b[:])
}

// MerkleRoot computes the bitcoin merkle root of the given txids (last element duplicated on odd
// levels). An empty list yields the zero hash.
func MerkleRoot(txids []Hash) Hash {
	if len(txids) == 0 {
		return Hash{}
	}
	level := append([]Hash{}, txids...)
	for len(level) > 1 {
		if len(level)%2 == 1 {
			level = append(level, level[len(level)-1])
		}
		next := make([]Hash, len(level)/2)
		for i := range next {
			next[i] = merkleParent(level[2*i], level[2*i+1])
		}
		level = next
	}
	return level[0]
}

// MerklePath returns the sibling hashes from leaf to root for the txid at index.
func MerklePath(txids []Hash, index int) []Hash {
	var path []Hash
	level := append([]Hash{}, txids...)
	for len(level) > 1 {
		if len(level)%2 == 1 {
			level = append(level, level[len(level)-1])
		}
		path = append(path, level[index^1])
		next := make([]Hash, len(level)/2)
		for i := range next {
			next[i] = merkleParent(level[2*i], level[2*i+1])
		}
		level = next
		index /= 2
	}
	return path
}

// RootFromPath recomputes the root from a leaf, its index and its path.
func RootFromPath(txid Hash, index int, path []Hash) Hash {
	h := txid
	for _, s := range path {
		if index&1 == 1 {
			h = merkleParent(s, h)
		} else {
			h = merkleParent(h, s)
		}
		index >>= 1
	}
	return h
}
