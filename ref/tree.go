package ref

import (
	"math/big"
	"sort"
)

// Hash is a 32-byte header hash.
type Hash [32]byte

// Node is one header known to the reference block tree.
type Node struct {
	Hash   Hash
	Parent *Node
	Height int
	Bits   uint32
	Work   *big.Int // cumulative
	Label  string
	Marked bool // explicitly marked invalid
	Seq    int  // order of acceptance
	// Base is set on nodes of a shared straight base chain: Base[h] is the node at height h.
	Base []*Node
}

// Tree is the reference block tree: the set of headers the implementation has accepted.
type Tree struct {
	Nodes map[Hash]*Node
	// Shared is an optional read-only set of nodes (a long base chain built once) that every tree
	// built on that base refers to; SharedTip is its tip.
	Shared    map[Hash]*Node
	SharedTip *Node
	// Removed holds the nodes deleted by Remove (headers that were accepted once and then taken
	// out by marking): they are no longer part of the accepted tree, but they were accepted.
	Removed map[Hash]*Node
	seq     int
}

func NewTree() *Tree {
	return &Tree{Nodes: make(map[Hash]*Node)}
}

// AddRoot adds a root (genesis or base) with a given cumulative work.
func (t *Tree) AddRoot(h Hash, height int, bits uint32, cumWork *big.Int, label string) *Node {
	n := &Node{Hash: h, Height: height, Bits: bits, Work: new(big.Int).Set(cumWork), Label: label,
		Seq: t.seq}
	t.seq++
	t.Nodes[h] = n
	return n
}

// Add adds a child of a known parent; returns nil when the parent is unknown. Adding an existing
// node returns it.
func (t *Tree) Add(h, parent Hash, bits uint32, label string) *Node {
	if n := t.Get(h); n != nil {
		return n
	}
	p := t.Get(parent)
	if p == nil {
		return nil
	}
	n := &Node{Hash: h, Parent: p, Height: p.Height + 1, Bits: bits, Label: label, Seq: t.seq + 1000000,
		Work: new(big.Int).Add(p.Work, WorkForBits(bits))}
	t.seq++
	t.Nodes[h] = n
	return n
}

// Remove deletes a node and all its descendants.
func (t *Tree) Remove(h Hash) {
	for k, n := range t.Nodes {
		if n.HasAncestorOrSelf(h) {
			delete(t.Nodes, k)
			if t.Removed == nil {
				t.Removed = map[Hash]*Node{}
			}
			t.Removed[k] = n
		}
	}
}

func (t *Tree) Get(h Hash) *Node {
	if n, ok := t.Nodes[h]; ok {
		return n
	}
	if t.Shared != nil {
		return t.Shared[h]
	}
	return nil
}

// HasAncestorOrSelf reports whether h is n or one of its ancestors.
func (n *Node) HasAncestorOrSelf(h Hash) bool {
	for c := n; c != nil; c = c.Parent {
		if c.Hash == h {
			return true
		}
		if c.Base != nil {
			for _, b := range c.Base[:c.Height] {
				if b.Hash == h {
					return true
				}
			}
			return false
		}
	}
	return false
}

// Excluded reports whether the node or an ancestor is marked invalid.
func (n *Node) Excluded() bool {
	for c := n; c != nil && c.Base == nil; c = c.Parent {
		if c.Marked {
			return true
		}
	}
	return false
}

// AncestorAt returns the ancestor-or-self at the given height, or nil.
func (n *Node) AncestorAt(height int) *Node {
	c := n
	for c != nil && c.Height > height {
		if c.Base != nil && height >= 0 {
			return c.Base[height]
		}
		c = c.Parent
	}
	if c != nil && c.Height == height {
		return c
	}
	return nil
}

// Sorted returns all nodes in acceptance order.
func (t *Tree) Sorted() []*Node {
	r := make([]*Node, 0, len(t.Nodes))
	for _, n := range t.Nodes {
		r = append(r, n)
	}
	sort.Slice(r, func(i, j int) bool { return r[i].Seq < r[j].Seq })
	return r
}

// BestTips returns every non-excluded node whose cumulative work is maximal.
func (t *Tree) BestTips() []*Node {
	var best []*Node
	all := t.Sorted()
	if t.SharedTip != nil {
		all = append([]*Node{t.SharedTip}, all...)
	}
	for _, n := range all {
		if n.Excluded() {
			continue
		}
		if len(best) == 0 {
			best = []*Node{n}
			continue
		}
		switch n.Work.Cmp(best[0].Work) {
		case 1:
			best = []*Node{n}
		case 0:
			best = append(best, n)
		}
	}
	return best
}

// Children returns the children of n in acceptance order.
func (t *Tree) Children(n *Node) []*Node {
	var r []*Node
	for _, c := range t.Sorted() {
		if c.Parent == n {
			r = append(r, c)
		}
	}
	return r
}

// ForkPoint returns the deepest common ancestor of a and b.
func ForkPoint(a, b *Node) *Node {
	for a != nil && b != nil && a != b {
		if a.Height > b.Height {
			a = a.Parent
		} else if b.Height > a.Height {
			b = b.Parent
		} else {
			a, b = a.Parent, b.Parent
		}
	}
	if a == b {
		return a
	}
	return nil
}

// IsLeaf reports whether n has no children.
func (t *Tree) IsLeaf(n *Node) bool {
	for _, c := range t.Nodes {
		if c.Parent == n {
			return false
		}
	}
	return true
}
