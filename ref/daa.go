package ref

import "math/big"

// DAABlock is what the difficulty algorithm reads of one block.
type DAABlock struct {
	Time      uint32
	ChainWork *big.Int // cumulative work up to and including this block
}

// suitable is the network's GetSuitableBlock: the median by time of three consecutive blocks,
// chosen by exactly this three-comparison exchange network (ties keep their relative order as the
// network leaves them, which decides WHICH block - and so which chain work - is used).
func suitable(b0, b1, b2 DAABlock) DAABlock {
	blocks := [3]DAABlock{b0, b1, b2}
	if blocks[0].Time > blocks[2].Time {
		blocks[0], blocks[2] = blocks[2], blocks[0]
	}
	if blocks[0].Time > blocks[1].Time {
		blocks[0], blocks[1] = blocks[1], blocks[0]
	}
	if blocks[1].Time > blocks[2].Time {
		blocks[1], blocks[2] = blocks[2], blocks[1]
	}
	return blocks[1]
}

// DAARequiredBits is the network's 144-block difficulty adjustment (November 2017 rule), for the
// block at height h. at(k) returns the block at height k on the block's own branch.
func DAARequiredBits(h int, at func(height int) DAABlock) uint32 {
	last := suitable(at(h-3), at(h-2), at(h-1))
	first := suitable(at(h-147), at(h-146), at(h-145))

	work := new(big.Int).Sub(last.ChainWork, first.ChainWork)
	work.Mul(work, big.NewInt(600))

	span := int64(last.Time) - int64(first.Time)
	if span > 288*600 {
		span = 288 * 600
	} else if span < 72*600 {
		span = 72 * 600
	}
	work.Div(work, big.NewInt(span))
	if work.Sign() <= 0 {
		return EncodeCompact(PowLimit)
	}
	// target = 2^256 / work - 1, computed by the network as (-work) / work in 256-bit arithmetic,
	// i.e. (2^256 - work) / work
	target := new(big.Int).Sub(two256, work)
	target.Div(target, work)
	if target.Cmp(PowLimit) > 0 {
		target.Set(PowLimit)
	}
	return EncodeCompact(target)
}
