package mc

import (
	"bufio"
	"crypto/sha256"
	"encoding/json"
	"fmt"
	"os"
	"path/filepath"
	"sort"
	"strconv"
	"strings"
)

// Root is the verification directory (where MANIFEST.json lives).
func Root() string {
	if r := os.Getenv("VERIF_ROOT"); r != "" {
		return r
	}
	return "/verif"
}

// OutRoot is where evidence and replay files are written: the verification directory, unless a
// check of another copy of the repository (VERIF_REPO, scratch worktrees) redirects it so that such
// runs never touch the evidence of the registered checks.
func OutRoot() string {
	if r := os.Getenv("VERIF_OUT"); r != "" {
		return r
	}
	return Root()
}

type known struct {
	prop, fingerprint, text string
}

func loadKnown() []known {
	f, err := os.Open(filepath.Join(Root(), "KNOWN_FINDINGS.txt"))
	if err != nil {
		return nil
	}
	defer f.Close()
	var r []known
	sc := bufio.NewScanner(f)
	sc.Buffer(make([]byte, 1<<20), 1<<20)
	for sc.Scan() {
		line := strings.TrimSpace(sc.Text())
		if !strings.HasPrefix(line, "known:") {
			continue // "fixed:" entries and comments suppress nothing
		}
		fields := strings.Fields(strings.TrimPrefix(line, "known:"))
		k := known{}
		var rest []string
		for _, fd := range fields {
			switch {
			case strings.HasPrefix(fd, "property=") && k.prop == "":
				k.prop = strings.TrimPrefix(fd, "property=")
			case strings.HasPrefix(fd, "fingerprint=") && k.fingerprint == "":
				k.fingerprint = strings.TrimPrefix(fd, "fingerprint=")
			default:
				rest = append(rest, fd)
			}
		}
		k.text = strings.Join(rest, " ")
		if k.prop != "" && k.fingerprint != "" {
			r = append(r, k)
		}
	}
	return r
}

var knownList []known
var knownLoaded bool

// IsKnown reports whether the violation is listed in KNOWN_FINDINGS.txt.
func IsKnown(v Violation) bool {
	if !knownLoaded {
		knownList = loadKnown()
		knownLoaded = true
	}
	for _, k := range knownList {
		if k.prop == v.Prop && k.fingerprint == v.Fingerprint {
			return true
		}
	}
	return false
}

func knownText(v Violation) string {
	for _, k := range knownList {
		if k.prop == v.Prop && k.fingerprint == v.Fingerprint {
			return k.text
		}
	}
	return ""
}

func init() { SetKnownFilter(IsKnown) }

// Evidence is the evidence file content.
type Evidence struct {
	PropertyID  string         `json:"property_id"`
	Tier        string         `json:"tier"`
	Seed        int            `json:"seed"`
	Level       string         `json:"level"`
	Coverage    map[string]any `json:"coverage"`
	Assumptions []string       `json:"assumptions,omitempty"`
	Wall        float64        `json:"wall_s"`
	Violations  int            `json:"violations"`
	Known       []string       `json:"known_findings_matched,omitempty"`
}

func Seed() int {
	n, _ := strconv.Atoi(os.Getenv("VERIF_SEED"))
	return n
}

// Finish prints findings, writes replay files and the evidence file, and returns the exit code.
func Finish(ev *Evidence, vs []Violation) int {
	root := OutRoot()
	unknown := 0
	printedKnown := map[string]bool{}
	printedViol := map[string]bool{}
	for _, v := range vs {
		if IsKnown(v) {
			if !printedKnown[v.Fingerprint] {
				printedKnown[v.Fingerprint] = true
				fmt.Printf("KNOWN-FINDING: property=%s %s [fingerprint=%s]\n", v.Prop, knownText(v), v.Fingerprint)
				ev.Known = append(ev.Known, v.Fingerprint)
			}
			continue
		}
		unknown++
		if printedViol[v.Fingerprint] && unknown > 3 {
			continue // one replay per fingerprint is enough after the first few
		}
		printedViol[v.Fingerprint] = true
		b, _ := json.MarshalIndent(v, "", " ")
		sum := sha256.Sum256(b)
		dir := filepath.Join(root, "replays", v.Prop)
		os.MkdirAll(dir, 0o755)
		path := filepath.Join(dir, fmt.Sprintf("%x.json", sum[:6]))
		os.WriteFile(path, b, 0o644)
		fmt.Printf("VIOLATION property=%s replay=%s\n", v.Prop, path)
		fmt.Printf("  clause: %s\n  fingerprint: %s\n  detail: %s\n", v.Clause, v.Fingerprint, v.Detail)
	}
	ev.Violations = unknown
	ev.Seed = Seed()
	if os.Getenv("VERIF_EVIDENCE_MERGE") == "1" {
		mergeEvidence(ev, filepath.Join(root, "evidence", ev.PropertyID+".json"))
	}
	sort.Strings(ev.Known)
	os.MkdirAll(filepath.Join(root, "evidence"), 0o755)
	b, _ := json.MarshalIndent(ev, "", " ")
	if err := os.WriteFile(filepath.Join(root, "evidence", ev.PropertyID+".json"), b, 0o644); err != nil {
		fmt.Fprintln(os.Stderr, "write evidence:", err)
		return 2
	}
	if unknown > 0 {
		return 1
	}
	return 0
}

// Report prints violations (or known findings) and writes their replay files without touching the
// evidence file; it returns the number of violations that are not known findings.
func Report(vs []Violation) int {
	root := OutRoot()
	unknown := 0
	printed := map[string]bool{}
	for _, v := range vs {
		if printed[v.Fingerprint] {
			continue
		}
		printed[v.Fingerprint] = true
		if IsKnown(v) {
			fmt.Printf("KNOWN-FINDING: property=%s %s [fingerprint=%s]\n", v.Prop, knownText(v), v.Fingerprint)
			continue
		}
		unknown++
		b, _ := json.MarshalIndent(v, "", " ")
		sum := sha256.Sum256(b)
		dir := filepath.Join(root, "replays", v.Prop)
		os.MkdirAll(dir, 0o755)
		path := filepath.Join(dir, fmt.Sprintf("%x.json", sum[:6]))
		os.WriteFile(path, b, 0o644)
		fmt.Printf("VIOLATION property=%s replay=%s\n", v.Prop, path)
		fmt.Printf("  clause: %s\n  fingerprint: %s\n  detail: %s\n", v.Clause, v.Fingerprint, v.Detail)
	}
	return unknown
}

// ModelCheckingCoverage fills the coverage keys for a model_checking level from search stats.
func ModelCheckingCoverage(st *Stats, extra map[string]any) map[string]any {
	c := map[string]any{
		"states":                        st.States,
		"transitions":                   st.Transitions,
		"traces_validated_against_impl": st.Transitions,
		"traces_validated_note":         "direct exploration: every transition is an execution of the real implementation compared step by step with the reference model",
		"oracle_comparisons":            st.Checks,
		"exhaustive":                    st.Exhaustive,
		"max_depth_completed":           st.MaxDepth,
		"states_per_depth":              st.LevelStates,
		"distinct_outcomes":             len(st.Outcomes),
		"outcomes":                      st.Outcomes,
		"samples":                       st.Samples,
	}
	for k, v := range st.Counters {
		c[k] = v
	}
	if st.CapHit != "" {
		c["cap_hit"] = st.CapHit
		c["frontier_left"] = st.Frontier
	}
	for k, v := range extra {
		c[k] = v
	}
	if len(st.Samples) == 0 {
		c["samples"] = []any{"(initial state only)"}
	}
	return c
}

// mergeEvidence folds the evidence an earlier engine wrote for the same property (same check
// command, several engines) into ev: counts are added, samples concatenated, and each engine's own
// coverage is kept under "parts".
func mergeEvidence(ev *Evidence, path string) {
	b, err := os.ReadFile(path)
	if err != nil {
		return
	}
	var prev Evidence
	if json.Unmarshal(b, &prev) != nil || prev.PropertyID != ev.PropertyID {
		return
	}
	parts, _ := prev.Coverage["parts"].([]any)
	if parts == nil {
		parts = []any{prev.Coverage}
	}
	own := map[string]any{}
	for k, v := range ev.Coverage {
		own[k] = v
	}
	parts = append(parts, own)
	num := func(v any) int {
		switch x := v.(type) {
		case float64:
			return int(x)
		case int:
			return x
		}
		return 0
	}
	// the first engine's level is the one claimed in the manifest: the merged record keeps it, with
	// the keys that level requires
	ownLevel := ev.Level
	ev.Level = prev.Level
	if prev.Level == "exploration" || prev.Level == "fault_enumeration" {
		if ev.Coverage["evaluations"] == nil {
			// a model-checking part counts its executions / transitions as evaluations and its distinct
			// observed outcomes as the distinct non-trivial cases
			n := num(ev.Coverage["executions"])
			if n == 0 {
				n = num(ev.Coverage["transitions"])
			}
			ev.Coverage["evaluations"] = n
			ev.Coverage["distinct_nontrivial"] = num(ev.Coverage["distinct_outcomes"])
		}
		if r, ok := prev.Coverage["rule"].(string); ok {
			ev.Coverage["rule"] = r + "; second part (" + ownLevel + "): every execution / transition of the exploration is one evaluation, distinct = distinct observed outcomes"
		}
	}
	for k, v := range prev.Coverage {
		if _, ok := ev.Coverage[k]; !ok && k != "parts" {
			switch k {
			case "outcomes", "scenarios", "states_per_depth", "alphabet", "cap_hit", "frontier_left", "max_depth_completed":
			default:
				ev.Coverage[k] = v
			}
		}
	}
	for _, k := range []string{"states", "transitions", "traces_validated_against_impl", "oracle_comparisons", "evaluations", "distinct_nontrivial", "distinct_outcomes"} {
		if _, ok := prev.Coverage[k]; ok || ev.Coverage[k] != nil {
			ev.Coverage[k] = num(prev.Coverage[k]) + num(ev.Coverage[k])
		}
	}
	ps, _ := prev.Coverage["samples"].([]any)
	es, _ := ev.Coverage["samples"].([]any)
	ev.Coverage["samples"] = append(ps, es...)
	pe, _ := prev.Coverage["exhaustive"].(bool)
	ee, _ := ev.Coverage["exhaustive"].(bool)
	ev.Coverage["exhaustive"] = pe && ee
	for _, k := range []string{"outcomes", "scenarios", "states_per_depth", "alphabet", "cap_hit", "frontier_left", "max_depth_completed"} {
		delete(ev.Coverage, k)
	}
	ev.Coverage["parts"] = parts
	ev.Assumptions = append(prev.Assumptions, ev.Assumptions...)
	ev.Wall += prev.Wall
	ev.Violations += prev.Violations
	ev.Known = append(prev.Known, ev.Known...)
}
