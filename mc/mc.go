// Package mc is the explicit-state search used by the engines: breadth-first over operation
// histories, successor = replay of the history on a fresh instance of the real system plus one
// more operation, exact de-duplication by a caller-supplied state key, every transition checked
// by caller-supplied oracles. It also holds the shared reporting code (violations, known
// findings, evidence files).
package mc

import (
	"crypto/sha256"
	"fmt"
	"runtime"
	"sort"
	"sync"
	"time"
)

// Violation is one failed oracle clause.
type Violation struct {
	Prop        string `json:"property"`
	Clause      string `json:"clause"`      // which clause of the oracle failed
	Fingerprint string `json:"fingerprint"` // stable structural class used for known-finding matching
	Detail      string `json:"detail"`
	History     any    `json:"history"` // replayable operation list
	Config      any    `json:"config,omitempty"`
}

// Result is what evaluating one history (= one transition into its final state) produced.
type Result[O any] struct {
	Key        string         // exact state key of the final state
	Violations []Violation    // oracle failures observed on this transition / in this state
	Outcomes   []string       // labels for distinct-outcome statistics
	Next       []O            // operations enabled in the final state (within bounds)
	Checks     int            // number of individual oracle comparisons performed
	Counters   map[string]int // additional measured counters (crash points, probes, ...)
}

// Stats accumulates what a search covered.
type Stats struct {
	States      int            `json:"states"`
	Transitions int            `json:"transitions"`
	Checks      int            `json:"oracle_comparisons"`
	MaxDepth    int            `json:"max_depth_completed"`
	Frontier    int            `json:"frontier_left"`
	Exhaustive  bool           `json:"exhaustive"`
	CapHit      string         `json:"cap_hit,omitempty"`
	Outcomes    map[string]int `json:"outcomes"`
	LevelStates []int          `json:"states_per_depth"`
	Samples     []any          `json:"-"`
	Counters    map[string]int `json:"counters,omitempty"`
	Wall        float64        `json:"wall_s"`
}

func (s *Stats) Merge(o *Stats) {
	s.States += o.States
	s.Transitions += o.Transitions
	s.Checks += o.Checks
	if o.MaxDepth > s.MaxDepth {
		s.MaxDepth = o.MaxDepth
	}
	s.Frontier += o.Frontier
	if s.Outcomes == nil {
		s.Outcomes = map[string]int{}
	}
	for k, v := range o.Outcomes {
		s.Outcomes[k] += v
	}
	if s.Counters == nil {
		s.Counters = map[string]int{}
	}
	for k, v := range o.Counters {
		s.Counters[k] += v
	}
	s.Samples = append(s.Samples, o.Samples...)
}

// Search explores breadth-first. run must be safe to call concurrently and deterministic.
// Known-finding or violating states are not expanded. Returns statistics and all violations in
// discovery (shortest-first) order. deadline: zero = none.
func Search[O any](run func(hist []O) Result[O], maxDepth int, deadline time.Time,
	sampleEvery int) (*Stats, []Violation) {

	start := time.Now()
	st := &Stats{Outcomes: map[string]int{}, Counters: map[string]int{}, Exhaustive: true}
	var violations []Violation
	seen := map[[16]byte]struct{}{}
	keyOf := func(k string) [16]byte {
		s := sha256.Sum256([]byte(k))
		var r [16]byte
		copy(r[:], s[:16])
		return r
	}

	type item struct {
		hist []O
	}
	// initial state
	r0 := run(nil)
	st.Transitions++
	st.Checks += r0.Checks
	seen[keyOf(r0.Key)] = struct{}{}
	st.States = 1
	st.LevelStates = append(st.LevelStates, 1)
	for _, o := range r0.Outcomes {
		st.Outcomes[o]++
	}
	if len(r0.Violations) > 0 {
		violations = append(violations, r0.Violations...)
		st.Wall = time.Since(start).Seconds()
		return st, violations
	}
	type node struct {
		hist []O
		next []O
	}
	frontier := []node{{nil, r0.Next}}
	workers := runtime.GOMAXPROCS(0)

	for depth := 1; len(frontier) > 0; depth++ {
		if maxDepth > 0 && depth > maxDepth {
			st.Exhaustive = false
			st.CapHit = fmt.Sprintf("depth cap %d", maxDepth)
			break
		}
		// work items of this level
		var work []item
		for _, n := range frontier {
			for _, op := range n.next {
				h := make([]O, len(n.hist)+1)
				copy(h, n.hist)
				h[len(n.hist)] = op
				work = append(work, item{h})
			}
		}
		if len(work) == 0 {
			break
		}
		results := make([]Result[O], len(work))
		done := make([]bool, len(work))
		var wg sync.WaitGroup
		var idx int
		var mu sync.Mutex
		timedOut := false
		for w := 0; w < workers; w++ {
			wg.Add(1)
			go func() {
				defer wg.Done()
				for {
					mu.Lock()
					i := idx
					idx++
					if !deadline.IsZero() && i%64 == 0 && time.Now().After(deadline) {
						timedOut = true
					}
					stop := timedOut
					mu.Unlock()
					if i >= len(work) || stop {
						return
					}
					results[i] = run(work[i].hist)
					done[i] = true
				}
			}()
		}
		wg.Wait()

		var next []node
		levelStates := 0
		for i := range work {
			if !done[i] {
				continue
			}
			r := results[i]
			st.Transitions++
			st.Checks += r.Checks
			for k, v := range r.Counters {
				st.Counters[k] += v
			}
			for _, o := range r.Outcomes {
				st.Outcomes[o]++
			}
			if len(r.Violations) > 0 {
				violations = append(violations, r.Violations...)
				continue // do not expand beyond a violated oracle
			}
			k := keyOf(r.Key)
			if _, ok := seen[k]; ok {
				continue
			}
			seen[k] = struct{}{}
			st.States++
			levelStates++
			if sampleEvery > 0 && (st.States%sampleEvery == 1 || sampleEvery == 1) && len(st.Samples) < 12 {
				st.Samples = append(st.Samples, work[i].hist)
			}
			if len(r.Next) > 0 {
				next = append(next, node{work[i].hist, r.Next})
			}
		}
		st.LevelStates = append(st.LevelStates, levelStates)
		if timedOut {
			st.Exhaustive = false
			st.CapHit = fmt.Sprintf("time cap reached inside depth %d", depth)
			st.Frontier = len(next)
			break
		}
		st.MaxDepth = depth
		frontier = next
		if hasRealViolation(violations) {
			// The level is complete (shortest counterexamples found); stop here.
			st.Exhaustive = false
			st.CapHit = "stopped after the first level with a violation"
			break
		}
	}
	st.Wall = time.Since(start).Seconds()
	return st, violations
}

var realViolationFilter func(Violation) bool

// SetKnownFilter installs the predicate that says whether a violation is a listed known finding.
func SetKnownFilter(f func(Violation) bool) { realViolationFilter = f }

func hasRealViolation(vs []Violation) bool {
	for _, v := range vs {
		if realViolationFilter == nil || !realViolationFilter(v) {
			return true
		}
	}
	return false
}

// SortedOutcomes returns the outcome labels sorted by name.
func (s *Stats) SortedOutcomes() []string {
	var r []string
	for k := range s.Outcomes {
		r = append(r, k)
	}
	sort.Strings(r)
	return r
}
