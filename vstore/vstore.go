// Package vstore is an in-memory storage.Storage for the verification engines. Unlike the
// repository's MockStorage it copies every byte slice (MockStorage aliases the caller's slice),
// can be cloned, records the sequence of mutating calls (for crash-point enumeration), and can
// produce a deterministic digest of its content.
package vstore

import (
	"context"
	"crypto/sha256"
	"fmt"
	"sort"
	"strings"
	"sync"

	"github.com/tokenized/pkg/storage"
)

// Mutation is one mutating call issued against the store.
type Mutation struct {
	Remove bool
	Key    string
	Value  []byte
}

type Store struct {
	mu   sync.Mutex
	data map[string][]byte

	logging bool
	log     []Mutation

	// FailAt makes the n-th (1-based) subsequent mutating call fail when > 0.
	failAt int
	count  int

	// duringWrite, when set, runs once in the middle of the next Write whose key is duringKey
	// (before the value is stored, without the store's own lock held): what a slow storage
	// back-end gives other callers time to do.
	duringKey   string
	duringWrite func()
}

// DuringNextWrite arranges for f to run once inside the next Write of key.
func (s *Store) DuringNextWrite(key string, f func()) {
	s.mu.Lock()
	s.duringKey, s.duringWrite = key, f
	s.mu.Unlock()
}

var _ storage.Storage = (*Store)(nil)

func New() *Store {
	return &Store{data: make(map[string][]byte)}
}

func (s *Store) Clone() *Store {
	s.mu.Lock()
	defer s.mu.Unlock()
	r := New()
	for k, v := range s.data {
		r.data[k] = v // values are immutable once stored (always copied on write)
	}
	return r
}

// StartLog begins recording mutating calls.
func (s *Store) StartLog() {
	s.mu.Lock()
	s.logging = true
	s.log = nil
	s.mu.Unlock()
}

// StopLog ends recording and returns what was recorded.
func (s *Store) StopLog() []Mutation {
	s.mu.Lock()
	defer s.mu.Unlock()
	s.logging = false
	r := s.log
	s.log = nil
	return r
}

// Apply performs one recorded mutation.
func (s *Store) Apply(m Mutation) {
	s.mu.Lock()
	defer s.mu.Unlock()
	if m.Remove {
		delete(s.data, m.Key)
	} else {
		s.data[m.Key] = m.Value
	}
}

// FailAt makes the n-th (1-based) mutating call from now on fail once, without effect; 0 clears.
func (s *Store) FailAt(n int) {
	s.mu.Lock()
	s.failAt, s.count = n, 0
	s.mu.Unlock()
}

// ErrInjected is returned by the call selected with FailAt.
var ErrInjected = fmt.Errorf("injected storage fault")

// fails reports (with the lock held) whether this mutating call is the one selected by FailAt.
func (s *Store) fails() bool {
	if s.failAt <= 0 {
		return false
	}
	s.count++
	if s.count == s.failAt {
		s.failAt = 0
		return true
	}
	return false
}

func (s *Store) Write(ctx context.Context, key string, body []byte, o *storage.Options) error {
	s.mu.Lock()
	if f := s.duringWrite; f != nil && key == s.duringKey {
		s.duringWrite = nil
		s.mu.Unlock()
		f()
		s.mu.Lock()
	}
	defer s.mu.Unlock()
	if s.fails() {
		return ErrInjected
	}
	c := make([]byte, len(body))
	copy(c, body)
	if s.logging {
		s.log = append(s.log, Mutation{Key: key, Value: c})
	}
	s.data[key] = c
	return nil
}

func (s *Store) Read(ctx context.Context, key string) ([]byte, error) {
	s.mu.Lock()
	defer s.mu.Unlock()
	v, ok := s.data[key]
	if !ok {
		return nil, storage.ErrNotFound
	}
	c := make([]byte, len(v))
	copy(c, v)
	return c, nil
}

func (s *Store) Remove(ctx context.Context, key string) error {
	s.mu.Lock()
	defer s.mu.Unlock()
	if s.fails() {
		return ErrInjected
	}
	if s.logging {
		s.log = append(s.log, Mutation{Remove: true, Key: key})
	}
	if _, ok := s.data[key]; !ok {
		return storage.ErrNotFound
	}
	delete(s.data, key)
	return nil
}

func (s *Store) Search(ctx context.Context, q map[string]string) ([][]byte, error) {
	s.mu.Lock()
	defer s.mu.Unlock()
	path := q["path"]
	var keys []string
	for k := range s.data {
		if strings.HasPrefix(k, path) {
			keys = append(keys, k)
		}
	}
	sort.Strings(keys)
	var r [][]byte
	for _, k := range keys {
		r = append(r, append([]byte{}, s.data[k]...))
	}
	return r, nil
}

func (s *Store) Clear(ctx context.Context, q map[string]string) error {
	s.mu.Lock()
	defer s.mu.Unlock()
	path := q["path"]
	for k := range s.data {
		if strings.HasPrefix(k, path) {
			delete(s.data, k)
		}
	}
	return nil
}

func (s *Store) List(ctx context.Context, path string) ([]string, error) {
	s.mu.Lock()
	defer s.mu.Unlock()
	var keys []string
	for k := range s.data {
		if strings.HasPrefix(k, path) {
			keys = append(keys, k)
		}
	}
	sort.Strings(keys)
	return keys, nil
}

func (s *Store) Copy(ctx context.Context, from, to string) error {
	s.mu.Lock()
	defer s.mu.Unlock()
	v, ok := s.data[from]
	if !ok {
		return storage.ErrNotFound
	}
	s.data[to] = v
	return nil
}

// Keys returns the sorted list of keys.
func (s *Store) Keys() []string {
	s.mu.Lock()
	defer s.mu.Unlock()
	keys := make([]string, 0, len(s.data))
	for k := range s.data {
		keys = append(keys, k)
	}
	sort.Strings(keys)
	return keys
}

// Get returns the stored bytes without copying; callers must not modify them.
func (s *Store) Get(key string) ([]byte, bool) {
	s.mu.Lock()
	defer s.mu.Unlock()
	v, ok := s.data[key]
	return v, ok
}

// Digest returns a deterministic digest of the full content.
func (s *Store) Digest() string {
	keys := s.Keys()
	h := sha256.New()
	for _, k := range keys {
		v, _ := s.Get(k)
		fmt.Fprintf(h, "%d:%s:%d:", len(k), k, len(v))
		h.Write(v)
	}
	return fmt.Sprintf("%x", h.Sum(nil)[:12])
}

// Equal reports whether both stores hold the same keys and values; when not it names a differing key.
func (s *Store) Equal(o *Store) (bool, string) {
	ka, kb := s.Keys(), o.Keys()
	seen := map[string]bool{}
	for _, k := range ka {
		seen[k] = true
		a, _ := s.Get(k)
		b, ok := o.Get(k)
		if !ok {
			return false, "missing in second: " + k
		}
		if string(a) != string(b) {
			return false, "differs: " + k
		}
	}
	for _, k := range kb {
		if !seen[k] {
			return false, "missing in first: " + k
		}
	}
	return true, ""
}
