package netsim

import (
	"bytes"
	"crypto/sha256"
	"encoding/binary"

	"github.com/tokenized/pkg/bitcoin"
	"github.com/tokenized/pkg/wire"
)

const Magic = uint32(bitcoin.MainNet)

// Frame builds a classic P2P frame: magic, command, length, checksum, payload.
func Frame(command string, payload []byte) []byte {
	return FrameRaw(Magic, []byte(command), uint32(len(payload)), checksum(payload), payload)
}

func checksum(payload []byte) [4]byte {
	a := sha256.Sum256(payload)
	b := sha256.Sum256(a[:])
	var c [4]byte
	copy(c[:], b[:4])
	return c
}

// FrameRaw builds a frame with every header field chosen by the caller.
func FrameRaw(magic uint32, command []byte, length uint32, sum [4]byte, payload []byte) []byte {
	b := make([]byte, 0, 24+len(payload))
	b = binary.LittleEndian.AppendUint32(b, magic)
	var cmd [12]byte
	copy(cmd[:], command)
	b = append(b, cmd[:]...)
	b = binary.LittleEndian.AppendUint32(b, length)
	b = append(b, sum[:]...)
	return append(b, payload...)
}

// ExtFrame builds an extended-format frame (protocol 70016): classic header with command
// "extmsg", length 0xffffffff and zero checksum, then the 12-byte real command and a 64-bit length.
func ExtFrame(command string, payload []byte) []byte {
	return ExtFrameRaw(command, uint64(len(payload)), payload)
}

func ExtFrameRaw(command string, length uint64, payload []byte) []byte {
	b := FrameRaw(Magic, []byte(wire.CmdExtended), 0xffffffff, [4]byte{}, nil)
	var cmd [12]byte
	copy(cmd[:], command)
	b = append(b, cmd[:]...)
	b = binary.LittleEndian.AppendUint64(b, length)
	return append(b, payload...)
}

// Msg encodes a wire message into a classic frame.
func Msg(m wire.Message) []byte {
	buf := &bytes.Buffer{}
	m.BtcEncode(buf, wire.ProtocolVersion)
	return Frame(m.Command(), buf.Bytes())
}

// Payload encodes only the payload of a message.
func Payload(m wire.Message) []byte {
	buf := &bytes.Buffer{}
	m.BtcEncode(buf, wire.ProtocolVersion)
	return buf.Bytes()
}

// ParsedFrame is one frame written by the node.
type ParsedFrame struct {
	Command string
	Payload []byte
}

// ParseFrames splits the node's output into frames; the remainder (incomplete frame) is returned.
func ParseFrames(b []byte) ([]ParsedFrame, []byte) {
	var r []ParsedFrame
	for len(b) >= 24 {
		length := int(binary.LittleEndian.Uint32(b[16:20]))
		if len(b) < 24+length {
			break
		}
		cmd := string(bytes.TrimRight(b[4:16], "\x00"))
		r = append(r, ParsedFrame{Command: cmd, Payload: append([]byte{}, b[24:24+length]...)})
		b = b[24+length:]
	}
	return r, b
}

// VarInt encodes a bitcoin variable length integer.
func VarInt(v uint64) []byte {
	switch {
	case v < 0xfd:
		return []byte{byte(v)}
	case v <= 0xffff:
		return append([]byte{0xfd}, binary.LittleEndian.AppendUint16(nil, uint16(v))...)
	case v <= 0xffffffff:
		return append([]byte{0xfe}, binary.LittleEndian.AppendUint32(nil, uint32(v))...)
	}
	return append([]byte{0xff}, binary.LittleEndian.AppendUint64(nil, v)...)
}

// HeadersPayload encodes a headers message payload.
func HeadersPayload(hs ...*wire.BlockHeader) []byte {
	buf := &bytes.Buffer{}
	buf.Write(VarInt(uint64(len(hs))))
	for _, h := range hs {
		h.Serialize(buf)
		buf.WriteByte(0)
	}
	return buf.Bytes()
}
