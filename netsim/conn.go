// Package netsim runs a real BitcoinNode over an in-memory connection whose peer side is the
// verification harness. The connection records every byte in both directions and exposes where in
// the inbound stream the node is (bytes consumed, reader blocked on an empty buffer).
package netsim

import (
	"io"
	"net"
	"sync"
	"time"
)

// Conn is the node's side of the in-memory connection (implements net.Conn).
type Conn struct {
	mu   sync.Mutex
	cond *sync.Cond

	in       []byte // bytes written by the harness, not yet read by the node
	consumed int    // total bytes the node has read
	written  int    // total bytes the harness has written
	waiting  bool   // the node is blocked in Read on an empty buffer

	out []byte // bytes written by the node, not yet taken by the harness

	closedByNode bool
	closedByPeer bool

	// stallWrites makes every Write of the node block until the connection is closed (the peer has
	// stopped reading and the transport's buffers are full)
	stallWrites   bool
	blockedWrites int

	// MaxRead > 0 makes every Read return at most that many bytes (short reads: the stream arrives
	// in pieces, as over TCP)
	MaxRead int
}

func NewConn() *Conn {
	c := &Conn{}
	c.cond = sync.NewCond(&c.mu)
	return c
}

// ---- node side (net.Conn) ----

func (c *Conn) Read(b []byte) (int, error) {
	c.mu.Lock()
	defer c.mu.Unlock()
	for len(c.in) == 0 {
		if c.closedByNode {
			return 0, io.ErrClosedPipe
		}
		if c.closedByPeer {
			return 0, io.EOF
		}
		c.waiting = true
		c.cond.Broadcast()
		c.cond.Wait()
	}
	c.waiting = false
	if c.closedByNode {
		return 0, io.ErrClosedPipe
	}
	if c.MaxRead > 0 && len(b) > c.MaxRead {
		b = b[:c.MaxRead]
	}
	n := copy(b, c.in)
	c.in = c.in[n:]
	c.consumed += n
	c.cond.Broadcast()
	return n, nil
}

func (c *Conn) Write(b []byte) (int, error) {
	c.mu.Lock()
	defer c.mu.Unlock()
	if c.closedByNode {
		return 0, io.ErrClosedPipe
	}
	if c.closedByPeer {
		return 0, io.ErrClosedPipe
	}
	for c.stallWrites {
		c.blockedWrites++
		c.cond.Broadcast()
		c.cond.Wait()
		c.blockedWrites--
		if c.closedByNode || c.closedByPeer {
			return 0, io.ErrClosedPipe
		}
	}
	c.out = append(c.out, b...)
	c.cond.Broadcast()
	return len(b), nil
}

func (c *Conn) Close() error {
	c.mu.Lock()
	c.closedByNode = true
	c.waiting = false
	c.cond.Broadcast()
	c.mu.Unlock()
	return nil
}

type addr struct{}

func (addr) Network() string { return "mem" }
func (addr) String() string  { return "127.0.0.1:8333" }

func (c *Conn) LocalAddr() net.Addr                { return addr{} }
func (c *Conn) RemoteAddr() net.Addr               { return addr{} }
func (c *Conn) SetDeadline(t time.Time) error      { return nil }
func (c *Conn) SetReadDeadline(t time.Time) error  { return nil }
func (c *Conn) SetWriteDeadline(t time.Time) error { return nil }

// ---- harness side ----

// Send delivers bytes to the node.
func (c *Conn) Send(b []byte) {
	c.mu.Lock()
	c.in = append(c.in, b...)
	c.written += len(b)
	c.cond.Broadcast()
	c.mu.Unlock()
}

// StallWrites: from now on the peer no longer reads; the node's writes block.
func (c *Conn) StallWrites() {
	c.mu.Lock()
	c.stallWrites = true
	c.mu.Unlock()
}

// ResumeWrites: the peer reads again.
func (c *Conn) ResumeWrites() {
	c.mu.Lock()
	c.stallWrites = false
	c.cond.Broadcast()
	c.mu.Unlock()
}

// BlockedWrites reports how many writes of the node are currently blocked.
func (c *Conn) BlockedWrites() int {
	c.mu.Lock()
	defer c.mu.Unlock()
	return c.blockedWrites
}

// PeerClose closes the connection from the peer's side.
func (c *Conn) PeerClose() {
	c.mu.Lock()
	c.closedByPeer = true
	c.cond.Broadcast()
	c.mu.Unlock()
}

// TakeOutput removes and returns what the node has written so far.
func (c *Conn) TakeOutput() []byte {
	c.mu.Lock()
	defer c.mu.Unlock()
	o := c.out
	c.out = nil
	return o
}

// Status is a snapshot of the stream position.
type Status struct {
	Written, Consumed int
	Waiting           bool // node blocked in Read with nothing buffered
	ClosedByNode      bool
	Pending           int // bytes buffered, not yet read by the node
	OutPending        int
}

func (c *Conn) Status() Status {
	c.mu.Lock()
	defer c.mu.Unlock()
	return Status{Written: c.written, Consumed: c.consumed, Waiting: c.waiting, ClosedByNode: c.closedByNode,
		Pending: len(c.in), OutPending: len(c.out)}
}

// WaitChange blocks until something changes on the connection or the timeout passes.
func (c *Conn) WaitChange(d time.Duration) {
	done := make(chan struct{})
	go func() {
		select {
		case <-time.After(d):
			c.mu.Lock()
			c.cond.Broadcast()
			c.mu.Unlock()
		case <-done:
		}
	}()
	c.mu.Lock()
	c.cond.Wait()
	c.mu.Unlock()
	close(done)
}
