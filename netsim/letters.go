package netsim

import (
	"bytes"
	"net"
	"sort"
	"time"

	"verif/hdr"

	"github.com/tokenized/bitcoin_reader/headers"
	"github.com/tokenized/pkg/bitcoin"
	"github.com/tokenized/pkg/wire"
)

func hash(s string) bitcoin.Hash32 {
	h, err := bitcoin.NewHash32FromStr(s)
	if err != nil {
		panic(err)
	}
	return *h
}

// SmuggledNonce only ever appears inside payloads, never in a ping the harness sends.
const SmuggledNonce = uint64(0xbad0bad0bad0bad0)

var (
	GenesisHash = hash("000000000019d6689c085ae165831e934ff763ae46a2a6c172b3f1b60a8ce26f")

	// Block 1 of the real chain: a valid child of genesis with real proof of work.
	Block1 = &wire.BlockHeader{Version: 1, PrevBlock: GenesisHash,
		MerkleRoot: hash("0e3e2357e806b6cdb1f70b54c3a3a17b6714ee1f0e68bebb44a74b1efd512098"),
		Timestamp:  1231469665, Bits: 0x1d00ffff, Nonce: 2573394689}
	// Block 2 of the real chain.
	Block2 = &wire.BlockHeader{Version: 1, PrevBlock: hash("00000000839a8e6886ab5951d76f411475428afc90947ee320161bbf18eb6048"),
		MerkleRoot: hash("9b0fc92260312ce44e74ef369f5c66bbb85848f2eddd5a7a1cde251e54ccfdd5"),
		Timestamp:  1231469744, Bits: 0x1d00ffff, Nonce: 1639830024}

	// BSV split header (first header only on the BSV chain), from the repository's constants.
	BSVSplit = headers.MainNetRequiredHeader

	// BCH split header, reconstructed from the constants in the repository's own test.
	BCHSplit = &wire.BlockHeader{Version: 0x20000000,
		PrevBlock:  hash("00000000000000000102d94fde9bd0807a2cc7582fe85dd6349b73ce4e8d9322"),
		MerkleRoot: hash("1cf31105bd6b1b4dba9ae55290ec06fff15b4567ec62a6e3863409bb3efd1944"),
		Timestamp:  1542304936, Bits: 402792411, Nonce: 3911120513}

	// A header that connects to nothing we know.
	UnknownHeader = &wire.BlockHeader{Version: 1, PrevBlock: hash("00000000000000000000000000000000000000000000000000000000deadbeef"),
		Timestamp: 1600000000, Bits: 0x1d00ffff, Nonce: 7}
)

// TestTx returns a small deterministic transaction.
func TestTx(i int) *wire.MsgTx {
	tx := wire.NewMsgTx(1)
	var prev bitcoin.Hash32
	prev[0] = byte(i + 1)
	tx.AddTxIn(wire.NewTxIn(wire.NewOutPoint(&prev, uint32(i)), bitcoin.Script{0x51}))
	tx.AddTxOut(wire.NewTxOut(uint64(1000+i), bitcoin.Script{0x6a, byte(i)}))
	return tx
}

func txBytes(tx *wire.MsgTx) []byte {
	buf := &bytes.Buffer{}
	tx.Serialize(buf)
	return buf.Bytes()
}

// BlockPayload encodes a block message payload.
func BlockPayload(h *wire.BlockHeader, txs ...*wire.MsgTx) []byte {
	buf := &bytes.Buffer{}
	h.Serialize(buf)
	buf.Write(VarInt(uint64(len(txs))))
	for _, tx := range txs {
		tx.Serialize(buf)
	}
	return buf.Bytes()
}

func versionMsg() []byte {
	local := wire.NewNetAddressIPPort(net.IPv4(127, 0, 0, 1), 8333, 0)
	remote := wire.NewNetAddressIPPort(net.IPv4(127, 0, 0, 1), 9333, 0)
	v := wire.NewMsgVersion(local, remote, 12345, 800000)
	v.UserAgent = "/peer/"
	v.Timestamp = time.Unix(1600000000, 0)
	return Msg(v)
}

func invPayload(t wire.InvType, hs ...bitcoin.Hash32) []byte {
	m := wire.NewMsgInv()
	for i := range hs {
		m.AddInvVect(wire.NewInvVect(t, &hs[i]))
	}
	return Payload(m)
}

func addrPayload(n int) []byte {
	m := wire.NewMsgAddr()
	for i := 0; i < n; i++ {
		m.AddAddress(wire.NewNetAddressIPPort(net.IPv4(10, 1, byte(i>>8), byte(i)), 8333, wire.SFNodeNetwork))
	}
	return Payload(m)
}

// Letters is the message alphabet: name -> complete, correctly framed bytes.
var Letters = map[string][]byte{}

// LetterNames in a fixed order (simplest first).
var LetterNames []string

func add(name string, b []byte) {
	Letters[name] = b
	LetterNames = append(LetterNames, name)
}

func init() {
	add("version", versionMsg())
	add("verack", Msg(&wire.MsgVerAck{}))
	add("headers[bsv-split]", Frame(wire.CmdHeaders, HeadersPayload(BSVSplit)))
	add("headers[bch-split]", Frame(wire.CmdHeaders, HeadersPayload(BCHSplit)))
	add("headers[block1]", Frame(wire.CmdHeaders, HeadersPayload(Block1)))
	add("headers[unknown]", Frame(wire.CmdHeaders, HeadersPayload(UnknownHeader)))
	add("headers[]", Frame(wire.CmdHeaders, HeadersPayload()))
	add("headers[bsv-split,unknown]", Frame(wire.CmdHeaders, HeadersPayload(BSVSplit, UnknownHeader)))
	add("headers[block1,block2]", Frame(wire.CmdHeaders, HeadersPayload(Block1, Block2)))
	many := make([]*wire.BlockHeader, 2000)
	for i := range many {
		h := *UnknownHeader
		h.Nonce = uint32(i)
		many[i] = &h
	}
	add("headers[2000x-unknown]", Frame(wire.CmdHeaders, HeadersPayload(many...)))
	add("ping", Msg(wire.NewMsgPing(99)))
	add("pong", Msg(wire.NewMsgPong(98)))
	add("getaddr", Msg(wire.NewMsgGetAddr()))
	add("protoconf", Msg(wire.NewMsgProtoconf()))
	add("reject", Msg(wire.NewMsgReject("tx", wire.RejectInvalid, "nope")))
	add("sendheaders", Msg(wire.NewMsgSendHeaders()))
	add("feefilter", Frame("feefilter", []byte{1, 0, 0, 0, 0, 0, 0, 0}))
	add("addr[0]", Frame(wire.CmdAddr, addrPayload(0)))
	add("addr[1]", Frame(wire.CmdAddr, addrPayload(1)))
	add("addr[1000]", Frame(wire.CmdAddr, addrPayload(1000)))
	tx0, tx1 := TestTx(0), TestTx(1)
	add("inv[tx0]", Frame(wire.CmdInv, invPayload(wire.InvTypeTx, *tx0.TxHash())))
	add("inv[tx0,tx1]", Frame(wire.CmdInv, invPayload(wire.InvTypeTx, *tx0.TxHash(), *tx1.TxHash())))
	add("inv[block]", Frame(wire.CmdInv, invPayload(wire.InvTypeBlock, *Block1.BlockHash())))
	add("inv[]", Frame(wire.CmdInv, invPayload(wire.InvTypeTx)))
	add("tx[tx0]", Frame(wire.CmdTx, txBytes(tx0)))
	add("tx[tx1]", Frame(wire.CmdTx, txBytes(tx1)))
	add("block[block1]", Frame(wire.CmdBlock, BlockPayload(Block1, tx0)))
	add("block[block1,2tx]", Frame(wire.CmdBlock, BlockPayload(Block1, tx0, tx1)))
	add("block[block2]", Frame(wire.CmdBlock, BlockPayload(Block2, tx0)))
	add("extmsg/tx[tx0]", ExtFrame(wire.CmdTx, txBytes(tx0)))
	add("extmsg/block[block1]", ExtFrame(wire.CmdBlock, BlockPayload(Block1, tx0)))
	add("extmsg/unknown[100]", ExtFrame("whatever", make([]byte, 100)))
	add("extmsg/unknown[0]", ExtFrame("whatever", nil))
	for _, size := range []int{0, 1, 1023, 1024, 1025, 65536, 4 << 20} {
		add("unknown["+itoa(size)+"]", Frame("xyzzy", make([]byte, size)))
	}
	// payloads that contain a complete ping frame aligned to the discard chunk size: if the node
	// ever resumes parsing inside the payload it answers a ping that was never sent
	for _, size := range []int{1024, 2048, 3 << 10} {
		p := make([]byte, size)
		for off := 0; off+1024 <= size; off += 1024 {
			copy(p[off:], Msg(wire.NewMsgPing(SmuggledNonce)))
		}
		add("unknown["+itoa(size)+":embedded-ping]", Frame("xyzzy", p))
	}
	{
		// an unrequested / wrong block whose payload after the 80-byte header is k*1024 bytes
		buf := &bytes.Buffer{}
		Block2.Serialize(buf)
		rest := make([]byte, 1024)
		copy(rest, Msg(wire.NewMsgPing(SmuggledNonce)))
		buf.Write(rest)
		add("block[block2:1104-bytes]", Frame(wire.CmdBlock, buf.Bytes()))
	}
	// long headers messages of acceptable headers (for sessions with Options.Universe: the labelled
	// header universe of verif/hdr, a straight chain above genesis): the count is a one-byte varint
	// up to 252 entries and a three-byte one from 253 on
	for _, n := range []int{252, 253, 300} {
		chain := make([]*wire.BlockHeader, n)
		label := "G"
		for i := range chain {
			label += "/a"
			chain[i] = hdr.Get(label).Header
		}
		add("headers[universe-chain-"+itoa(n)+"]", Frame(wire.CmdHeaders, HeadersPayload(chain...)))
	}
	// NOT part of the well-framed alphabet (not in LetterNames): a framed headers message followed
	// by the bare payload of a verifying headers message, which only means something to a node that
	// keeps reading past a message it has already disposed of
	// a verifying reply of 30 headers (2431 bytes of payload, of which the node reads the first
	// header only): not part of the general alphabet
	{
		list := []*wire.BlockHeader{BSVSplit}
		for i := 0; i < 29; i++ {
			h := *UnknownHeader
			h.Nonce = uint32(1000 + i)
			list = append(list, &h)
		}
		Letters["headers[bsv-split,29x-unknown]"] = Frame(wire.CmdHeaders, HeadersPayload(list...))
	}
	Letters["headers[block2]"] = Frame(wire.CmdHeaders, HeadersPayload(Block2))
	Letters["headers[block2,unknown]"] = Frame(wire.CmdHeaders, HeadersPayload(Block2, UnknownHeader))
	Letters["headers[unknown]+unframed[bsv-split]"] = append(append([]byte{}, Frame(wire.CmdHeaders, HeadersPayload(UnknownHeader))...), HeadersPayload(BSVSplit)...)
	add("notfound", Frame(wire.CmdNotFound, invPayload(wire.InvTypeTx, *tx0.TxHash())))
	add("getheaders", Msg(wire.NewMsgGetHeaders()))
	add("getdata", Frame(wire.CmdGetData, invPayload(wire.InvTypeTx, *tx0.TxHash())))
	add("mempool", Frame(wire.CmdMemPool, nil))
}

func itoa(n int) string {
	if n == 0 {
		return "0"
	}
	s := ""
	for n > 0 {
		s = string(rune('0'+n%10)) + s
		n /= 10
	}
	return s
}

// SortedLetterNames returns all letter names sorted.
func SortedLetterNames() []string {
	r := append([]string{}, LetterNames...)
	sort.Strings(r)
	return r
}
