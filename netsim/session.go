package netsim

import (
	"context"
	"encoding/binary"
	"fmt"
	"io"
	"runtime"
	"strings"
	"sync"
	"time"

	"verif/vstore"

	bitcoin_reader "github.com/tokenized/bitcoin_reader"
	"github.com/tokenized/bitcoin_reader/headers"
	"github.com/tokenized/config"
	"github.com/tokenized/logger"
	"github.com/tokenized/pkg/bitcoin"
	"github.com/tokenized/pkg/merkle_proof"
	"github.com/tokenized/pkg/wire"
)

// Options selects the node's role.
type Options struct {
	VerifyOnly    bool `json:"verify_only,omitempty"`
	TxManager     bool `json:"tx_manager,omitempty"`
	LateTxManager bool `json:"late_tx_manager,omitempty"`  // with TxManager: the transaction manager exists but is attached to the node / node manager only by a later call (AttachTxManager)
	Manager       bool `json:"node_manager,omitempty"`     // register the node with a NodeManager
	Preload       bool `json:"preload_headers,omitempty"`  // the repository already holds blocks 1 and 2 (learned from another peer)
	HeaderHandler bool `json:"header_handler,omitempty"`   // a secondary headers handler is installed, as the node manager does for every node it creates
	NoSplits      bool `json:"no_split_table,omitempty"`   // the repository knows no chain split points (as on a network without any): its verify-only locator is empty
	Universe      bool `json:"universe_headers,omitempty"` // proof-of-work checking off, so that the labelled header universe of verif/hdr can be submitted to the repository
	SynthSplit    bool `json:"synthetic_split,omitempty"`  // the chain is identified by a split at height 2 (before: block 1, required after: block 2): with Preload the repository holds the headers its verification locator names, as a synchronised one does
	ReadChunk     int  `json:"read_chunk,omitempty"`       // > 0: the node's reads return at most this many bytes (the stream arrives in pieces)
}

// SpyHeaders wraps the real header repository and records the calls a peer can cause.
type SpyHeaders struct {
	*headers.Repository
	mu       sync.Mutex
	Process  int
	Verify   int
	Accepted int
}

func (s *SpyHeaders) ProcessHeader(ctx context.Context, h *wire.BlockHeader) error {
	s.mu.Lock()
	s.Process++
	s.mu.Unlock()
	err := s.Repository.ProcessHeader(ctx, h)
	if err == nil {
		s.mu.Lock()
		s.Accepted++
		s.mu.Unlock()
	}
	return err
}

func (s *SpyHeaders) VerifyHeader(ctx context.Context, h *wire.BlockHeader) error {
	s.mu.Lock()
	s.Verify++
	s.mu.Unlock()
	return s.Repository.VerifyHeader(ctx, h)
}

func (s *SpyHeaders) Counts() (process, verify int) {
	s.mu.Lock()
	defer s.mu.Unlock()
	return s.Process, s.Verify
}

// SpyPeers wraps the real peer repository.
type SpyPeers struct {
	*bitcoin_reader.StoragePeerRepository
	mu      sync.Mutex
	Adds    int
	Scores  int
	Times   int
	AddList []string
}

func (s *SpyPeers) Add(ctx context.Context, a string) (bool, error) {
	s.mu.Lock()
	s.Adds++
	if len(s.AddList) < 8 {
		s.AddList = append(s.AddList, a)
	}
	s.mu.Unlock()
	return s.StoragePeerRepository.Add(ctx, a)
}
func (s *SpyPeers) UpdateScore(ctx context.Context, a string, d int32) bool {
	s.mu.Lock()
	s.Scores++
	s.mu.Unlock()
	return s.StoragePeerRepository.UpdateScore(ctx, a, d)
}
func (s *SpyPeers) UpdateTime(ctx context.Context, a string) bool {
	s.mu.Lock()
	s.Times++
	s.mu.Unlock()
	return s.StoragePeerRepository.UpdateTime(ctx, a)
}
func (s *SpyPeers) Counts() (adds, scores, times int) {
	s.mu.Lock()
	defer s.mu.Unlock()
	return s.Adds, s.Scores, s.Times
}

// SpyProcessor records transactions reaching the processor.
type SpyProcessor struct {
	mu       sync.Mutex
	Txs      []bitcoin.Hash32
	Coinbase int
	Confirms int
}

func (p *SpyProcessor) ProcessTx(ctx context.Context, tx *wire.MsgTx) (bool, error) {
	p.mu.Lock()
	p.Txs = append(p.Txs, *tx.TxHash())
	p.mu.Unlock()
	return true, nil
}
func (p *SpyProcessor) CancelTx(ctx context.Context, txid bitcoin.Hash32) error { return nil }
func (p *SpyProcessor) AddTxConflict(ctx context.Context, a, b bitcoin.Hash32) error {
	return nil
}
func (p *SpyProcessor) ConfirmTx(ctx context.Context, txid bitcoin.Hash32, h int, mp *merkle_proof.MerkleProof) error {
	p.mu.Lock()
	p.Confirms++
	p.mu.Unlock()
	return nil
}
func (p *SpyProcessor) UpdateTxChainDepth(ctx context.Context, txid bitcoin.Hash32, d uint32) error {
	return nil
}
func (p *SpyProcessor) ProcessCoinbaseTx(ctx context.Context, h bitcoin.Hash32, tx *wire.MsgTx) error {
	p.mu.Lock()
	p.Coinbase++
	p.mu.Unlock()
	return nil
}
func (p *SpyProcessor) Count() int {
	p.mu.Lock()
	defer p.mu.Unlock()
	return len(p.Txs)
}

// Session is one node run.
type Session struct {
	Opt       Options
	Ctx       context.Context
	Conn      *Conn
	Node      *bitcoin_reader.BitcoinNode
	Headers   *SpyHeaders
	Peers     *SpyPeers
	TxManager *bitcoin_reader.TxManager
	Processor *SpyProcessor
	Manager   *bitcoin_reader.NodeManager

	Frames []ParsedFrame // everything the node has written, in order
	rest   []byte

	interrupt     chan interface{}
	interruptOnce sync.Once
	runDone       chan struct{}
	RunErr        error
	RunPanic      string
	txDone        chan struct{}
	nonce         uint64
	shared        bool
}

const PeerAddress = "127.0.0.1:8333"

// Start creates the node and runs it over a fresh in-memory connection.
func Start(opt Options) *Session { return start(opt, nil) }

// StartShared creates a node that shares the header repository, peer book and transaction manager
// of another session (several connections of one process).
func StartShared(opt Options, with *Session) *Session { return start(opt, with) }

func start(opt Options, with *Session) *Session {
	s := &Session{Opt: opt, Ctx: logger.ContextWithNoLogger(context.Background()), Conn: NewConn(),
		interrupt: make(chan interface{}), runDone: make(chan struct{}), nonce: 0x1000}
	s.Conn.MaxRead = opt.ReadChunk
	if with != nil {
		s.Headers, s.Peers = with.Headers, with.Peers
		s.shared = true
	} else {
		store := vstore.New()
		repo := headers.NewRepository(headers.DefaultConfig(), store)
		repo.InitializeWithGenesis()
		if opt.Universe {
			repo.DisableDifficulty()
		}
		if opt.NoSplits {
			repo.VerifSetSplits(nil, nil)
		}
		if opt.Preload {
			for _, h := range []*wire.BlockHeader{Block1, Block2} {
				hc := h.Copy()
				if err := repo.ProcessHeader(s.Ctx, &hc); err != nil {
					panic("preload: " + err.Error())
				}
			}
		}
		if opt.SynthSplit {
			repo.VerifSetSplits(nil, &headers.Split{Name: "synthetic", BeforeHash: *Block1.BlockHash(), AfterHash: *Block2.BlockHash(), Height: 2})
		}
		s.Headers = &SpyHeaders{Repository: repo}
		s.Peers = &SpyPeers{StoragePeerRepository: bitcoin_reader.NewPeerRepository(store, "")}
	}
	cfg := bitcoin_reader.DefaultConfig()
	cfg.Timeout = config.NewDuration(time.Hour)
	s.Node = bitcoin_reader.NewBitcoinNode(PeerAddress, "/verif/", cfg, s.Headers, s.Peers)
	if opt.VerifyOnly {
		s.Node.SetVerifyOnly()
	}
	if opt.HeaderHandler {
		// reads the headers message the way an application's handler does: the announced number of
		// headers, one by one, until they are all there or the stream ends
		s.Node.SetHeaderHandler(func(ctx context.Context, h *wire.MessageHeader, r io.Reader) error {
			count, err := wire.ReadVarInt(r, wire.ProtocolVersion)
			if err != nil {
				return err
			}
			for i := uint64(0); i < count; i++ {
				bh := &wire.BlockHeader{}
				if err := bh.Deserialize(r); err != nil {
					return err
				}
				if _, err := wire.ReadVarInt(r, wire.ProtocolVersion); err != nil {
					return err
				}
			}
			return nil
		})
	}
	if opt.TxManager && with != nil && with.TxManager != nil {
		s.TxManager, s.Processor = with.TxManager, with.Processor
		s.Node.SetTxManager(s.TxManager)
	} else if opt.TxManager {
		s.TxManager = bitcoin_reader.NewTxManager(time.Hour)
		s.Processor = &SpyProcessor{}
		s.TxManager.SetTxProcessor(s.Processor)
		if !opt.LateTxManager {
			s.Node.SetTxManager(s.TxManager)
		}
		s.txDone = make(chan struct{})
		go func() {
			defer close(s.txDone)
			s.TxManager.Run(s.Ctx)
		}()
	}
	if opt.Manager && with != nil && with.Manager != nil {
		s.Manager = with.Manager
		s.Manager.VerifAddNode(s.Node)
	} else if opt.Manager {
		s.Manager = bitcoin_reader.NewNodeManager("/verif/", cfg, s.Headers, s.Peers)
		if s.TxManager != nil && !opt.LateTxManager {
			s.Manager.SetTxManager(s.TxManager)
		}
		s.Manager.VerifAddNode(s.Node)
	}
	go func() {
		defer close(s.runDone)
		defer func() {
			if r := recover(); r != nil {
				s.RunPanic = fmt.Sprint(r)
			}
		}()
		s.RunErr = s.Node.VerifRun(s.Ctx, s.Conn, s.interrupt)
	}()
	return s
}

// AttachTxManager attaches the transaction manager of a LateTxManager session while the node is
// running: directly to the node, or through the node manager.
func (s *Session) AttachTxManager(viaManager bool) {
	if s.TxManager == nil {
		return
	}
	if viaManager && s.Manager != nil {
		s.Manager.SetTxManager(s.TxManager)
	} else {
		s.Node.SetTxManager(s.TxManager)
	}
}

// Collect moves the node's output into Frames.
func (s *Session) Collect() {
	s.rest = append(s.rest, s.Conn.TakeOutput()...)
	var fs []ParsedFrame
	fs, s.rest = ParseFrames(s.rest)
	s.Frames = append(s.Frames, fs...)
}

// Deliver sends bytes to the node.
func (s *Session) Deliver(b []byte) { s.Conn.Send(b) }

// BarrierResult says how the barrier after a delivery ended.
type BarrierResult struct {
	Pong    bool   // the pong for the barrier ping arrived
	Closed  bool   // the node closed the connection
	Stuck   bool   // neither within the time allowed
	Where   string // for Stuck: the blocked frame inside the node, from the goroutine dump
	Elapsed time.Duration
}

func (s *Session) hasPong(nonce uint64) bool {
	for _, f := range s.Frames {
		if f.Command == wire.CmdPong && len(f.Payload) == 8 && binary.LittleEndian.Uint64(f.Payload) == nonce {
			return true
		}
	}
	return false
}

// RunReturned reports whether the node's Run has returned.
func (s *Session) RunReturned() bool {
	select {
	case <-s.runDone:
		return true
	default:
		return false
	}
}

// Barrier sends a ping and waits until its pong arrives and the node is quiescent, or the node
// closed the connection, or maxWait passed.
func (s *Session) Barrier(maxWait time.Duration) BarrierResult {
	start := time.Now()
	s.nonce++
	nonce := s.nonce
	s.Deliver(Msg(wire.NewMsgPing(nonce)))
	lastDump := ""
	stable := 0
	for {
		s.Collect()
		st := s.Conn.Status()
		if st.ClosedByNode || s.RunReturned() {
			// let Run wind down so that state read afterwards is final
			s.waitRun(2 * time.Second)
			s.Collect()
			return BarrierResult{Closed: true, Pong: s.hasPong(nonce), Elapsed: time.Since(start)}
		}
		if s.hasPong(nonce) {
			d := s.Node.VerifDump()
			if d == lastDump && st.Waiting && st.Pending == 0 && st.OutPending == 0 && strings.Contains(d, "outgoing=0") {
				stable++
				if stable >= 2 {
					return BarrierResult{Pong: true, Elapsed: time.Since(start)}
				}
			} else {
				stable = 0
			}
			lastDump = d
		}
		if time.Since(start) > maxWait {
			return BarrierResult{Stuck: true, Where: blockedFrame(), Elapsed: time.Since(start)}
		}
		time.Sleep(40 * time.Microsecond)
	}
}

func (s *Session) waitRun(d time.Duration) bool {
	select {
	case <-s.runDone:
		return true
	case <-time.After(d):
		return false
	}
}

// blockedFrame returns the innermost bitcoin_reader frame of a goroutine blocked on a channel
// operation inside a message handler, from the live goroutine dump.
func blockedFrame() string {
	buf := make([]byte, 1<<20)
	n := runtime.Stack(buf, true)
	for _, g := range strings.Split(string(buf[:n]), "\n\n") {
		if !strings.Contains(g, "[chan send") && !strings.Contains(g, "[chan receive") && !strings.Contains(g, "[select") && !strings.Contains(g, "[sync.Cond.Wait") {
			continue
		}
		if !strings.Contains(g, "bitcoin_reader.(*BitcoinNode).handle") {
			continue
		}
		for _, l := range strings.Split(g, "\n") {
			if strings.Contains(l, "bitcoin_reader.(*BitcoinNode).handle") && !strings.Contains(l, "handleMessage") {
				f := l
				if i := strings.Index(f, "("); i > 0 {
					f = strings.TrimSpace(l)
				}
				if j := strings.LastIndex(f, "("); j > 0 {
					f = f[:j]
				}
				state := g[strings.Index(g, "[")+1:]
				state = state[:strings.Index(state, "]")]
				if k := strings.Index(state, ","); k > 0 {
					state = state[:k]
				}
				return f + " [" + state + "]"
			}
		}
	}
	return "unknown"
}

// Finish closes the connection from the peer side (if still open), interrupts and waits for Run.
// It returns whether Run returned within the time allowed.
// InterruptNode closes the node's interrupt channel (the embedding program shuts the node down)
// while the connection stays open.
func (s *Session) InterruptNode() {
	s.interruptOnce.Do(func() { close(s.interrupt) })
}

func (s *Session) Finish(maxWait time.Duration) bool {
	s.Conn.PeerClose()
	ok := s.waitRun(maxWait)
	if !ok {
		s.InterruptNode()
		ok = s.waitRun(maxWait)
	}
	if s.TxManager != nil && !s.shared {
		func() {
			defer func() { recover() }()
			s.TxManager.Stop(s.Ctx)
		}()
		select {
		case <-s.txDone:
		case <-time.After(time.Second):
		}
	}
	s.Collect()
	return ok
}

// Sent lists the commands the node has written so far.
func (s *Session) Sent() []string {
	r := make([]string, len(s.Frames))
	for i, f := range s.Frames {
		r[i] = f.Command
	}
	return r
}

// WaitRun waits until the node's run has returned (true) or d has passed.
func (s *Session) WaitRun(d time.Duration) bool { return s.waitRun(d) }
