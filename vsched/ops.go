package vsched

import (
	"fmt"
	"math/rand"
	"reflect"
	"sync"
	"time"
)

// ---- goroutines ---------------------------------------------------------------------------------

// Go replaces the go statement.
func Go(f func()) { GoNamed("", f) }

// GoNamed starts a thread with a name (used in traces and failure reports).
func GoNamed(name string, f func()) {
	s := active()
	if s == nil {
		nativeLive.Add(1)
		go func() {
			defer nativeLive.Add(-1)
			f()
		}()
		return
	}
	p := s.running
	p.spawns++
	t := &thread{id: len(s.threads), path: fmt.Sprintf("%s.%d", p.path, p.spawns), name: name, gate: make(chan struct{}, 1)}
	if t.name == "" {
		t.name = "t" + t.path
	}
	t.pend = &op{kind: opStart}
	t.h = mix(p.h, 'G', uint64(p.spawns))
	p.h = mix(p.h, 'g')
	s.threads = append(s.threads, t)
	go s.threadMain(t, f)
}

// Yield is a free switch point for harness actors.
func Yield() {
	s := active()
	if s == nil {
		return
	}
	t := s.running
	s.point(t, &op{kind: opYield, pcs: callerPCs()})
	t.h = mix(t.h, 'Y')
}

// Name sets the running thread's name.
func Name(n string) {
	if s := active(); s != nil {
		s.running.name = n
	}
}

// ---- Mutex --------------------------------------------------------------------------------------

// Mutex replaces sync.Mutex.
type Mutex struct {
	native sync.Mutex
}

func (m *Mutex) Lock() {
	s := active()
	if s == nil {
		m.native.Lock()
		return
	}
	st := s.mutexOf(m)
	t := s.running
	s.point(t, &op{kind: opLock, mu: st, pcs: callerPCs()})
	st.writer = t
	t.h = mix(t.h, st.h, 'L')
	st.h = t.h
	s.updMutex(st)
}

func (m *Mutex) Unlock() {
	s := active()
	if s == nil {
		m.native.Unlock()
		return
	}
	st := s.mutexOf(m)
	if st.writer == nil {
		panic("sync: unlock of unlocked mutex")
	}
	st.writer = nil
	t := s.running
	t.h = mix(t.h, st.h, 'U')
	st.h = t.h
	s.updMutex(st)
}

// RWMutex replaces sync.RWMutex.
type RWMutex struct {
	native sync.RWMutex
}

func (m *RWMutex) Lock() {
	s := active()
	if s == nil {
		m.native.Lock()
		return
	}
	st := s.mutexOf(m)
	t := s.running
	s.point(t, &op{kind: opLock, mu: st, pcs: callerPCs()})
	st.writer = t
	t.h = mix(t.h, st.h, 'L')
	st.h = t.h
	s.updMutex(st)
}

func (m *RWMutex) Unlock() {
	s := active()
	if s == nil {
		m.native.Unlock()
		return
	}
	st := s.mutexOf(m)
	if st.writer == nil {
		panic("sync: Unlock of unlocked RWMutex")
	}
	st.writer = nil
	t := s.running
	t.h = mix(t.h, st.h, 'U')
	st.h = t.h
	s.updMutex(st)
}

func (m *RWMutex) RLock() {
	s := active()
	if s == nil {
		m.native.RLock()
		return
	}
	st := s.mutexOf(m)
	t := s.running
	s.point(t, &op{kind: opRLock, mu: st, pcs: callerPCs()})
	st.readers++
	t.h = mix(t.h, st.h, 'r')
	st.h = t.h
	s.updMutex(st)
}

func (m *RWMutex) RUnlock() {
	s := active()
	if s == nil {
		m.native.RUnlock()
		return
	}
	st := s.mutexOf(m)
	if st.readers <= 0 {
		panic("sync: RUnlock of unlocked RWMutex")
	}
	st.readers--
	t := s.running
	t.h = mix(t.h, st.h, 'u')
	st.h = t.h
	s.updMutex(st)
}

// WaitGroup replaces sync.WaitGroup.
type WaitGroup struct {
	native sync.WaitGroup
}

func (w *WaitGroup) Add(n int) {
	s := active()
	if s == nil {
		w.native.Add(n)
		return
	}
	st := s.wgOf(w)
	st.n += n
	if st.n < 0 {
		panic("sync: negative WaitGroup counter")
	}
	t := s.running
	t.h = mix(t.h, st.h, 'A', uint64(int64(n)))
	st.h = t.h
	s.updWG(st)
}

func (w *WaitGroup) Done() { w.Add(-1) }

func (w *WaitGroup) Wait() {
	s := active()
	if s == nil {
		w.native.Wait()
		return
	}
	st := s.wgOf(w)
	t := s.running
	s.point(t, &op{kind: opWait, wg: st, pcs: callerPCs()})
	t.h = mix(t.h, st.h, 'W')
}

// ---- channels -----------------------------------------------------------------------------------

// doSend performs a send that the scheduler has found enabled.
func (s *Sched) doSend(t *thread, ch *chanState, v any) {
	if ch.closed {
		panic("send on closed channel")
	}
	t.h = mix(t.h, ch.h, 'S')
	ch.h = t.h
	if ch.cap > 0 {
		ch.buf = append(ch.buf, v)
		s.updChan(ch)
		return
	}
	s.updChan(ch)
	r := s.receiverWaiting(ch, t)
	if r == nil {
		panic("vsched: unbuffered send without receiver")
	}
	o := r.pend
	o.completed = true
	o.recvVal, o.recvOK = v, true
	o.recvHash = ch.h
	if o.kind == opSelect {
		for i, c := range o.cases {
			if !c.send && c.ch == ch {
				o.caseIndex = i
				break
			}
		}
	}
}

func (s *Sched) doRecv(ch *chanState) (any, bool) {
	t := s.running
	t.h = mix(t.h, ch.h, 'R', uint64(len(ch.buf)))
	ch.h = t.h
	if len(ch.buf) > 0 {
		v := ch.buf[0]
		ch.buf = ch.buf[1:]
		s.updChan(ch)
		return v, true
	}
	s.updChan(ch)
	if ch.closed {
		return nil, false
	}
	panic("vsched: receive without value")
}

// conv converts a value carried as any back to the channel's element type (values are passed as
// any so that sending a concrete value on a channel of interface type needs no type inference).
func conv[T any](v any) T {
	var zero T
	if v == nil {
		return zero
	}
	if t, ok := v.(T); ok {
		return t
	}
	rv := reflect.ValueOf(v)
	rt := reflect.TypeOf(&zero).Elem()
	if rv.Type().ConvertibleTo(rt) {
		return rv.Convert(rt).Interface().(T)
	}
	panic(fmt.Sprintf("vsched: cannot use %T as channel element %v", v, rt))
}

// Send replaces ch <- v.
func Send[T any](ch chan<- T, v any) {
	s := active()
	if s == nil {
		ch <- conv[T](v)
		return
	}
	st := s.chanOf(ch)
	t := s.running
	s.point(t, &op{kind: opSend, ch: st, pcs: callerPCs()})
	s.doSend(t, st, v)
}

// Recv2 replaces v, ok := <-ch.
func Recv2[T any](ch <-chan T) (T, bool) {
	s := active()
	if s == nil {
		v, ok := <-ch
		return v, ok
	}
	st := s.chanOf(ch)
	t := s.running
	o := &op{kind: opRecv, ch: st, pcs: callerPCs()}
	s.point(t, o)
	var v any
	var ok bool
	if o.completed {
		v, ok = o.recvVal, o.recvOK
		t.h = mix(t.h, o.recvHash, 'R')
	} else {
		v, ok = s.doRecv(st)
	}
	var zero T
	if !ok {
		return zero, ok
	}
	return conv[T](v), ok
}

// Recv replaces <-ch.
func Recv[T any](ch <-chan T) T {
	v, _ := Recv2(ch)
	return v
}

// Close replaces close(ch).
func Close[T any](ch chan<- T) {
	s := active()
	if s == nil {
		close(ch)
		return
	}
	st := s.chanOf(ch)
	if st == nil {
		panic("close of nil channel")
	}
	t := s.running
	s.point(t, &op{kind: opClose, ch: st, pcs: callerPCs()})
	if st.closed {
		panic("close of closed channel")
	}
	st.closed = true
	t.h = mix(t.h, st.h, 'C')
	st.h = t.h
	s.updChan(st)
}

// Case is one case of a select statement.
type Case interface {
	build(s *Sched) selCase
	nativeRecv() (func(), bool)
}

// RC is a receive case.
type RC[T any] struct {
	ch <-chan T
	v  T
	ok bool
}

func RecvCase[T any](ch <-chan T) *RC[T]    { return &RC[T]{ch: ch} }
func (c *RC[T]) Val() T                     { return c.v }
func (c *RC[T]) Val2() (T, bool)            { return c.v, c.ok }
func (c *RC[T]) build(s *Sched) selCase     { return selCase{ch: s.chanOf(c.ch)} }
func (c *RC[T]) nativeRecv() (func(), bool) { return nil, false }
func (c *RC[T]) set(v any, ok bool) {
	c.ok = ok
	if ok {
		c.v = conv[T](v)
	}
}

// SC is a send case.
type SC[T any] struct {
	ch chan<- T
	v  T
}

func SendCase[T any](ch chan<- T, v any) *SC[T] { return &SC[T]{ch: ch, v: conv[T](v)} }
func (c *SC[T]) build(s *Sched) selCase         { return selCase{send: true, ch: s.chanOf(c.ch), val: c.v} }
func (c *SC[T]) nativeRecv() (func(), bool)     { return nil, false }

type setter interface{ set(v any, ok bool) }

// Select replaces a select statement: it returns the index of the case taken, -1 for default.
func Select(hasDefault bool, cases ...Case) int {
	s := active()
	if s == nil {
		return nativeSelect(hasDefault, cases)
	}
	t := s.running
	o := &op{kind: opSelect, def: hasDefault, pcs: callerPCs()}
	for _, c := range cases {
		o.cases = append(o.cases, c.build(s))
	}
	s.point(t, o)
	if o.completed {
		if st, ok := cases[o.caseIndex].(setter); ok {
			st.set(o.recvVal, o.recvOK)
		}
		t.h = mix(t.h, o.recvHash, 'R', uint64(o.caseIndex))
		return o.caseIndex
	}
	var ready []int
	for i, c := range o.cases {
		if s.caseReady(t, c) {
			ready = append(ready, i)
		}
	}
	if len(ready) == 0 {
		if hasDefault {
			t.h = mix(t.h, 'D')
			return -1
		}
		panic("vsched: select scheduled without a ready case")
	}
	k := 0
	if len(ready) > 1 {
		k = s.choose(len(ready), true, true, "select-case")
	}
	i := ready[k]
	c := o.cases[i]
	t.h = mix(t.h, 'X', uint64(i))
	if c.send {
		s.doSend(t, c.ch, c.val)
	} else {
		v, ok := s.doRecv(c.ch)
		cases[i].(setter).set(v, ok)
	}
	return i
}

// ---- time ---------------------------------------------------------------------------------------

func Now() time.Time {
	s := active()
	if s == nil {
		return nativeNow()
	}
	s.running.h = mix(s.running.h, 'N', uint64(s.now))
	return epoch.Add(s.now)
}

func Since(t time.Time) time.Duration {
	s := active()
	if s == nil {
		return nativeNow().Sub(t)
	}
	return epoch.Add(s.now).Sub(t)
}

func After(d time.Duration) <-chan time.Time {
	s := active()
	if s == nil {
		return time.After(d / time.Duration(NativeTimeScale))
	}
	ch := make(chan time.Time, 1)
	st := s.chanOf(ch)
	s.tseq++
	s.running.h = mix(s.running.h, 'F', uint64(s.now+d))
	st.h = s.running.h
	s.updChan(st)
	s.timers = append(s.timers, &timer{deadline: s.now + d, ch: st, seq: s.tseq})
	return ch
}

// Timer stands in for time.Timer (time.NewTimer, Stop, Reset, the channel C) on the virtual clock.
type Timer struct {
	C      <-chan time.Time
	ch     chan time.Time
	native *time.Timer
	tm     *timer
}

func NewTimer(d time.Duration) *Timer {
	s := active()
	if s == nil {
		nt := time.NewTimer(d / time.Duration(NativeTimeScale))
		return &Timer{C: nt.C, native: nt}
	}
	ch := make(chan time.Time, 1)
	t := &Timer{C: ch, ch: ch}
	t.arm(s, d)
	return t
}

func (t *Timer) arm(s *Sched, d time.Duration) {
	st := s.chanOf(t.ch)
	s.tseq++
	s.running.h = mix(s.running.h, 'F', uint64(s.now+d))
	st.h = s.running.h
	s.updChan(st)
	t.tm = &timer{deadline: s.now + d, ch: st, seq: s.tseq}
	s.timers = append(s.timers, t.tm)
}

// Stop prevents the timer from firing; it reports whether the timer was still pending.
func (t *Timer) Stop() bool {
	if t.native != nil {
		return t.native.Stop()
	}
	s := active()
	if s == nil {
		return false
	}
	for i, tm := range s.timers {
		if tm == t.tm {
			s.timers = append(s.timers[:i:i], s.timers[i+1:]...)
			s.running.h = mix(s.running.h, 'f', uint64(tm.deadline))
			return true
		}
	}
	return false
}

// Reset re-arms the timer for d from now; it reports whether the timer had been pending.
func (t *Timer) Reset(d time.Duration) bool {
	if t.native != nil {
		return t.native.Reset(d / time.Duration(NativeTimeScale))
	}
	was := t.Stop()
	if s := active(); s != nil {
		t.arm(s, d)
	}
	return was
}

func Sleep(d time.Duration) {
	s := active()
	if s == nil {
		time.Sleep(d / time.Duration(NativeTimeScale))
		return
	}
	Recv(After(d))
}

// Advance moves the virtual clock forward (harness only).
func Advance(d time.Duration) {
	if s := active(); s != nil {
		s.now += d
	}
}

// RandSeed / RandShuffle replace math/rand calls whose only purpose is load spreading: under
// exploration the order is the identity so that executions are reproducible.
func RandSeed(seed int64) {
	if active() == nil {
		rand.Seed(seed)
	}
}

func RandShuffle(n int, swap func(i, j int)) {
	if active() == nil {
		rand.Shuffle(n, swap)
	}
}

// Pool replaces sync.Pool in rewritten code. It hands back the most recently returned object
// first (a stack): the answer of a real pool that maximises reuse, which is the one that exposes
// objects still referenced by whoever returned them. Deterministic, so executions replay.
// Map stands in for sync.Map: the native one (every method is one atomic step of the calling thread,
// with a switch point before it so that two threads' accesses can be ordered either way).
type Map struct{ m sync.Map }

func (m *Map) Load(key any) (any, bool)               { Yield(); return m.m.Load(key) }
func (m *Map) Store(key, value any)                   { Yield(); m.m.Store(key, value) }
func (m *Map) LoadOrStore(key, value any) (any, bool) { Yield(); return m.m.LoadOrStore(key, value) }
func (m *Map) LoadAndDelete(key any) (any, bool)      { Yield(); return m.m.LoadAndDelete(key) }
func (m *Map) Delete(key any)                         { Yield(); m.m.Delete(key) }
func (m *Map) Range(f func(key, value any) bool)      { Yield(); m.m.Range(f) }

type Pool struct {
	New   func() interface{}
	mu    sync.Mutex
	items []interface{}
}

func (p *Pool) Get() interface{} {
	p.mu.Lock()
	if n := len(p.items); n > 0 {
		x := p.items[n-1]
		p.items = p.items[:n-1]
		p.mu.Unlock()
		return x
	}
	p.mu.Unlock()
	if p.New != nil {
		return p.New()
	}
	return nil
}

func (p *Pool) Put(x interface{}) {
	if x == nil {
		return
	}
	p.mu.Lock()
	p.items = append(p.items, x)
	p.mu.Unlock()
}

// Once replaces sync.Once in rewritten code (a mutex-protected flag, so that the wait of a second
// caller is visible to the scheduler).
type Once struct {
	m    Mutex
	done bool
}

func (o *Once) Do(f func()) {
	o.m.Lock()
	defer o.m.Unlock()
	if !o.done {
		o.done = true
		f()
	}
}

// RandPerm replaces rand.Perm like RandShuffle: the identity under exploration.
func RandPerm(n int) []int {
	if active() == nil {
		return rand.Perm(n)
	}
	r := make([]int, n)
	for i := range r {
		r[i] = i
	}
	return r
}
