// Package vsched is a cooperative, controlled scheduler for instrumented Go code. Source files
// of the system under test are rewritten (see /verif/cmd/instr) so that every synchronisation
// operation - mutex, rwmutex, waitgroup, channel send / receive / close / select / range, go
// statements, time.Now/Since/After/Sleep - goes through this package. When no exploration is
// active every operation falls through to the native one, so instrumented code also runs free.
//
// Under exploration exactly one instrumented goroutine ("thread") runs at a time. Before each
// visible operation the thread publishes the operation and the scheduler picks, among the threads
// whose pending operation is enabled, the one to run next - following a recorded choice prefix and
// defaulting to "keep running the current thread". Time is virtual: timers fire only when no
// thread is enabled.
package vsched

import (
	"fmt"
	"reflect"
	"runtime"
	"sort"
	"strings"
	"sync"
	"time"
)

type opKind int

const (
	opStart opKind = iota
	opLock
	opRLock
	opSend
	opRecv
	opClose
	opSelect
	opWait
	opYield
	opExit
)

var kindNames = map[opKind]string{opStart: "start", opLock: "lock", opRLock: "rlock", opSend: "send", opRecv: "recv",
	opClose: "close", opSelect: "select", opWait: "wait", opYield: "yield", opExit: "exit"}

type selCase struct {
	send bool
	ch   *chanState
	val  any
}

type op struct {
	kind  opKind
	mu    *mutexState
	ch    *chanState
	wg    *wgState
	val   any
	cases []selCase
	def   bool // select has default

	// filled by a partner (unbuffered rendezvous) or by the thread itself
	completed bool
	caseIndex int
	recvVal   any
	recvOK    bool
	recvHash  uint64
	pcs       [3]uintptr
}

type thread struct {
	h      uint64 // hash of everything this thread has done and observed so far
	id     int
	path   string
	name   string
	gate   chan struct{}
	pend   *op
	done   bool
	spawns int
	objs   int
	daemon bool
}

type mutexState struct {
	c       uint64 // current contribution to the global state key
	h       uint64 // hash of the history of operations on this object
	id      string
	writer  *thread
	readers int
}

type chanState struct {
	c      uint64
	h      uint64
	id     string
	cap    int
	buf    []any
	closed bool
	keep   any // the native channel: kept reachable so its address is not reused within the execution
}

type wgState struct {
	c  uint64
	h  uint64
	id string
	n  int
}

type timer struct {
	deadline time.Duration
	ch       *chanState
	seq      int
}

// Point describes one decision point of an execution.
type Point struct {
	Enabled        int  // number of candidates
	RunningEnabled bool // the running thread was among them (choosing another one is a preemption)
	Free           bool // alternatives cost nothing (yield, select-case choice, thread blocked or finished)
	Kind           string
	Chosen         int
	Key            uint64 // hash of the global state (happens-before trace) at this decision
}

// Sched is one controlled execution.
type Sched struct {
	quiet    bool       // set-up phase (see Quiet)
	mu       sync.Mutex // protects nothing hot; only used for end-of-run signalling
	threads  []*thread
	running  *thread
	prefix   []int
	Points   []Point
	Choices  []int
	steps    int
	maxSteps int

	objects map[any]any // native object pointer -> shadow state
	timers  []*timer
	tseq    int
	now     time.Duration

	finished    chan struct{}
	Failure     string // deadlock / horizon / panic description ("" if the run completed)
	FailKind    string
	Trace       []string // compact operation trace (thread:op@object)
	trace       bool
	shared      map[string]bool // object ids known to be touched by more than one thread
	touched     map[string]map[string]bool
	allSites    bool
	TimedOutVia []string // timers that enabled a blocked system
	aborted     bool
	objSum      uint64 // sum of the objects' contributions to the state key (kept incrementally)
}

var (
	cur   *Sched
	curMu sync.Mutex
)

func active() *Sched { return cur }

// Quiet switches the set-up phase on or off (harness only). While it is on, the scheduler follows
// one fixed schedule (the running thread while it can run, else the lowest thread id) and records
// no decision points: a scenario can bring the system into the state it wants to explore from
// without paying for the interleavings of getting there. The phase is deterministic, so replay is
// unaffected.
func Quiet(on bool) {
	if s := active(); s != nil {
		s.quiet = on
	}
}

// Options configure one execution.
type Options struct {
	Prefix   []int
	MaxSteps int
	Trace    bool
	Shared   map[string]bool // nil: every object is a decision point
}

var epoch = time.Date(2024, 1, 1, 0, 0, 0, 0, time.UTC)

// Run executes body under the scheduler following the choice prefix, and returns the execution.
func Run(body func(), o Options) *Sched {
	s := &Sched{prefix: o.Prefix, maxSteps: o.MaxSteps, objects: map[any]any{}, finished: make(chan struct{}),
		trace: o.Trace, shared: o.Shared, touched: map[string]map[string]bool{}, allSites: o.Shared == nil}
	if s.maxSteps == 0 {
		s.maxSteps = 20000
	}
	curMu.Lock()
	cur = s
	t0 := &thread{id: 0, path: "0", name: "main", gate: make(chan struct{}, 1)}
	s.threads = append(s.threads, t0)
	s.running = t0
	go s.threadMain(t0, body)
	<-s.finished
	cur = nil
	lastElapsed = s.now
	curMu.Unlock()
	return s
}

var lastElapsed time.Duration

// LastElapsed returns the virtual time that had passed at the end of the most recent execution.
func LastElapsed() time.Duration { return lastElapsed }

func (s *Sched) threadMain(t *thread, f func()) {
	defer func() {
		if r := recover(); r != nil {
			if _, ok := r.(abortSignal); ok {
				return
			}
			buf := make([]byte, 4096)
			n := runtime.Stack(buf, false)
			s.fail("panic", fmt.Sprintf("thread %s (%s) panicked: %v\n%s", t.path, t.name, r, firstFrames(string(buf[:n]))))
			return
		}
	}()
	if t.id != 0 {
		// a new thread waits to be scheduled for the first time (its pending "start" operation was
		// published by the parent before this goroutine existed)
		<-t.gate
		if s.aborted {
			select {} // the execution was abandoned: stay parked (see fail)
		}
		t.pend = nil
	}
	f()
	// thread exit: hand the processor to someone else
	t.done = true
	s.point(t, &op{kind: opExit})
}

type abortSignal struct{}

func firstFrames(st string) string {
	lines := strings.Split(st, "\n")
	var keep []string
	for _, l := range lines {
		if strings.Contains(l, "vsched") || strings.HasPrefix(l, "goroutine") || strings.Contains(l, "runtime/") || strings.Contains(l, "panic(") {
			continue
		}
		keep = append(keep, strings.TrimSpace(l))
		if len(keep) >= 6 {
			break
		}
	}
	return strings.Join(keep, " | ")
}

// fail ends the execution with a failure.
func (s *Sched) fail(kind, msg string) {
	if s.aborted {
		return
	}
	s.aborted = true
	s.FailKind = kind
	s.Failure = msg
	// Parked threads stay parked for ever (their goroutines leak): releasing them would let code
	// of an abandoned execution run concurrently with the next one. Failures end the exploration
	// after a handful, so the leak is bounded.
	close(s.finished)
}

// park blocks the calling goroutine for ever; used by the running thread of an abandoned execution.
func park() { select {} }

func (s *Sched) end() {
	if s.aborted {
		return
	}
	s.aborted = true
	close(s.finished)
}

// ---- object registry ---------------------------------------------------------------------------

// newID names a synchronisation object at its first use. Objects first used while only the main
// thread exists (scenario set-up, deterministic) get stable names that mean the same object in
// every execution; only for those can "no other thread ever touches it" be learned across
// executions. Objects first used later get per-execution names and are always treated as shared.
func (s *Sched) newID(kind string) string {
	t := s.running
	t.objs++
	if len(s.threads) == 1 {
		return fmt.Sprintf("S%s#%d", kind, t.objs)
	}
	return fmt.Sprintf("D%s%s#%d", kind, t.path, t.objs)
}

func stableID(id string) bool { return len(id) > 0 && id[0] == 'S' }

func (s *Sched) mutexOf(key any) *mutexState {
	if st, ok := s.objects[key]; ok {
		return st.(*mutexState)
	}
	st := &mutexState{id: s.newID("m")}
	s.objects[key] = st
	return st
}

func (s *Sched) wgOf(key any) *wgState {
	if st, ok := s.objects[key]; ok {
		return st.(*wgState)
	}
	st := &wgState{id: s.newID("w")}
	s.objects[key] = st
	return st
}

func (s *Sched) chanOf(ch any) *chanState {
	v := reflect.ValueOf(ch)
	if v.IsNil() {
		return nil
	}
	key := v.Pointer()
	if st, ok := s.objects[key]; ok {
		return st.(*chanState)
	}
	st := &chanState{id: s.newID("c"), cap: v.Cap(), keep: ch}
	s.objects[key] = st
	return st
}

// ---- enabledness --------------------------------------------------------------------------------

func (s *Sched) receiverWaiting(ch *chanState, except *thread) *thread {
	for _, t := range s.threads {
		if t == except || t.done || t.pend == nil || t.pend.completed {
			continue
		}
		switch t.pend.kind {
		case opRecv:
			if t.pend.ch == ch {
				return t
			}
		case opSelect:
			for _, c := range t.pend.cases {
				if !c.send && c.ch == ch {
					return t
				}
			}
		}
	}
	return nil
}

func (s *Sched) caseReady(t *thread, c selCase) bool {
	if c.ch == nil {
		return false
	}
	if c.send {
		if c.ch.closed {
			return true // will panic, as natively
		}
		if c.ch.cap > 0 {
			return len(c.ch.buf) < c.ch.cap
		}
		return s.receiverWaiting(c.ch, t) != nil
	}
	if len(c.ch.buf) > 0 || c.ch.closed {
		return true
	}
	return false
}

func (s *Sched) enabled(t *thread) bool {
	if t.done && (t.pend == nil || t.pend.kind != opExit) {
		return false
	}
	o := t.pend
	if o == nil {
		return false
	}
	if o.completed {
		return true
	}
	switch o.kind {
	case opStart, opYield, opClose:
		return true
	case opExit:
		return false
	case opLock:
		return o.mu.writer == nil && o.mu.readers == 0
	case opRLock:
		return o.mu.writer == nil
	case opSend:
		return s.caseReady(t, selCase{send: true, ch: o.ch})
	case opRecv:
		return s.caseReady(t, selCase{ch: o.ch})
	case opSelect:
		if o.def {
			return true
		}
		for _, c := range o.cases {
			if s.caseReady(t, c) {
				return true
			}
		}
		return false
	case opWait:
		return o.wg.n == 0
	}
	return false
}

// ---- the scheduling point -----------------------------------------------------------------------

func (s *Sched) objectID(o *op) string {
	switch {
	case o.mu != nil:
		return o.mu.id
	case o.ch != nil:
		return o.ch.id
	case o.wg != nil:
		return o.wg.id
	}
	return ""
}

func (s *Sched) touch(t *thread, id string) {
	if id == "" || len(s.threads) == 1 {
		return // set-up by the only thread: happens before everything the other threads do
	}
	m := s.touched[id]
	if m == nil {
		m = map[string]bool{}
		s.touched[id] = m
	}
	m[t.path] = true
}

func (s *Sched) isShared(o *op) bool {
	if s.allSites {
		return true
	}
	switch o.kind {
	case opSelect:
		for _, c := range o.cases {
			if c.ch != nil && (!stableID(c.ch.id) || s.shared[c.ch.id]) {
				return true
			}
		}
		return len(o.cases) == 0
	case opYield, opExit, opStart:
		return true
	case opRLock:
		// read locks are independent of each other: they only matter if some thread write-locks
		return !stableID(o.mu.id) || s.shared["w:"+o.mu.id]
	}
	id := s.objectID(o)
	return !stableID(id) || s.shared[id]
}

// choose consults the prefix for the next decision among n candidates.
func (s *Sched) choose(n int, runningEnabled, free bool, kind string) int {
	i := len(s.Choices)
	c := 0
	if i < len(s.prefix) {
		c = s.prefix[i]
		if c >= n {
			s.fail("replay-divergence", fmt.Sprintf("decision %d: recorded choice %d but only %d candidates (%s)", i, c, n, kind))
			park()
		}
	}
	s.Choices = append(s.Choices, c)
	s.Points = append(s.Points, Point{Enabled: n, RunningEnabled: runningEnabled, Free: free, Kind: kind, Chosen: c, Key: s.stateKey()})
	return c
}

// point publishes t's pending operation and yields until t is chosen with the operation enabled.
func (s *Sched) point(t *thread, o *op) {
	if s.aborted {
		park()
	}
	t.pend = o
	s.steps++
	if s.steps > s.maxSteps {
		s.fail("horizon", fmt.Sprintf("step horizon %d exceeded: the system never becomes quiescent%s", s.maxSteps, s.describeThreads()))
		park()
	}
	for _, c := range o.cases {
		if c.ch != nil {
			s.touch(t, c.ch.id)
		}
	}
	s.touch(t, s.objectID(o))
	if o.kind != opRLock && o.mu != nil {
		s.touch(t, "w:"+o.mu.id) // a write lock: read locks of this object now conflict with something
	}
	next := s.pick(t, o)
	if next != t {
		s.running = next
		next.gate <- struct{}{}
		if o.kind == opExit {
			return // this thread's goroutine ends
		}
		<-t.gate
		if s.aborted {
			park()
		}
	}
	t.pend = nil
	if s.trace && o.kind != opExit {
		s.Trace = append(s.Trace, fmt.Sprintf("%s:%s", t.name, kindNames[o.kind]))
	}
}

// pick decides which thread runs next. It never returns a thread whose operation is not enabled;
// it fires timers when nothing is enabled; it ends the run on completion or deadlock.
func (s *Sched) pick(t *thread, o *op) *thread {
	for {
		var cands []*thread
		runningEnabled := s.enabled(t)
		if runningEnabled {
			cands = append(cands, t)
		}
		for _, u := range s.threads {
			if u != t && s.enabled(u) {
				cands = append(cands, u)
			}
		}
		if len(cands) == 0 {
			if s.fireTimer() {
				continue
			}
			// nothing can run
			alive := 0
			for _, u := range s.threads {
				if !u.done {
					alive++
				}
			}
			if alive == 0 {
				s.end()
			} else {
				s.fail("deadlock", "no thread can run and no timer is pending"+s.describeThreads())
			}
			// let this goroutine end if it is exiting, else park it for ever
			if t.done {
				runtime.Goexit()
			}
			park()
		}
		if len(cands) == 1 {
			return cands[0]
		}
		if s.quiet {
			return cands[0] // set-up phase: one fixed schedule, no decision points (see Quiet)
		}
		free := !runningEnabled || o.kind == opYield || o.kind == opExit
		if runningEnabled && !free && !s.isShared(o) {
			return t // operation on an object only this thread has ever touched: not a decision point
		}
		c := s.choose(len(cands), runningEnabled, free, kindNames[o.kind])
		return cands[c]
	}
}

func (s *Sched) fireTimer() bool {
	if len(s.timers) == 0 {
		return false
	}
	sort.SliceStable(s.timers, func(i, j int) bool {
		if s.timers[i].deadline != s.timers[j].deadline {
			return s.timers[i].deadline < s.timers[j].deadline
		}
		return s.timers[i].seq < s.timers[j].seq
	})
	tm := s.timers[0]
	s.timers = s.timers[1:]
	if tm.deadline > s.now {
		s.now = tm.deadline
	}
	if len(tm.ch.buf) < tm.ch.cap {
		tm.ch.buf = append(tm.ch.buf, epoch.Add(s.now))
	}
	tm.ch.h = mix(tm.ch.h, 'T', uint64(tm.deadline))
	s.updChan(tm.ch)
	s.steps++
	return true
}

func (s *Sched) describeThreads() string {
	var sb strings.Builder
	for _, u := range s.threads {
		if u.done {
			continue
		}
		st := "running"
		if u.pend != nil {
			st = "blocked in " + kindNames[u.pend.kind]
			if sx := resolveSite(u.pend.pcs); sx != "" {
				st += " at " + sx
			}
		}
		fmt.Fprintf(&sb, "; thread %s (%s) %s", u.path, u.name, st)
	}
	return sb.String()
}

// Touched returns, per object id, how many distinct threads touched it in this execution.
func (s *Sched) Touched() map[string]int {
	r := map[string]int{}
	for id, m := range s.touched {
		r[id] = len(m)
		if len(id) > 2 && id[:2] == "w:" && len(m) > 0 {
			// a write-locked rwmutex: shared for readers if anybody else touches it at all
			if len(s.touched[id[2:]]) > 1 {
				r[id] = 2
			} else {
				r[id] = 1
			}
		}
	}
	return r
}

// Now returns the virtual time of the execution.
func (s *Sched) VirtualNow() time.Duration { return s.now }

// callerPCs captures the program counters of the instrumented caller cheaply; they are only
// resolved to file:line when a failure is described.
func callerPCs() (pcs [3]uintptr) {
	if s := cur; s != nil && s.trace {
		runtime.Callers(3, pcs[:])
	}
	return
}

func resolveSite(pcs [3]uintptr) string {
	frames := runtime.CallersFrames(pcs[:])
	for {
		f, more := frames.Next()
		if f.File != "" && !strings.Contains(f.File, "/vsched/") {
			file := f.File
			if i := strings.LastIndex(file, "/"); i >= 0 {
				file = file[i+1:]
			}
			return fmt.Sprintf("%s:%d", file, f.Line)
		}
		if !more {
			return ""
		}
	}
}

func mix(h uint64, xs ...uint64) uint64 {
	for _, x := range xs {
		h ^= x + 0x9e3779b97f4a7c15 + (h << 6) + (h >> 2)
		h *= 0x100000001b3
	}
	return h
}

// stateKey hashes the global state as a happens-before trace: per-thread histories, per-object
// histories, the running thread and the virtual clock. Two executions that reach equal keys have
// executed the same partial order of operations and (for data-race-free code) are in the same
// state; the explorer uses this to prune.
func (s *Sched) stateKey() uint64 {
	var k uint64
	for _, t := range s.threads {
		pk := uint64(99)
		if t.pend != nil {
			pk = uint64(t.pend.kind)
			if t.pend.completed {
				pk += 50
			}
		}
		if t.done {
			pk = 77
		}
		k += mix(uint64(t.id)+1, t.h, pk)
	}
	k += s.objSum
	return mix(k, uint64(s.running.id), uint64(s.now), uint64(len(s.timers)))
}

// updMutex / updChan / updWG refresh an object's contribution to the state key after it changed.
func (s *Sched) updMutex(st *mutexState) {
	w := uint64(0)
	if st.writer != nil {
		w = uint64(st.writer.id) + 1
	}
	n := mix(1, st.h, w, uint64(st.readers))
	s.objSum += n - st.c
	st.c = n
}

func (s *Sched) updChan(st *chanState) {
	c := uint64(0)
	if st.closed {
		c = 1
	}
	n := mix(2, st.h, uint64(len(st.buf)), c)
	s.objSum += n - st.c
	st.c = n
}

func (s *Sched) updWG(st *wgState) {
	n := mix(3, st.h, uint64(st.n))
	s.objSum += n - st.c
	st.c = n
}
