package vsched

import "reflect"

// nativeSelect performs a real select (no exploration active) using reflection.
func nativeSelect(hasDefault bool, cases []Case) int {
	rc := make([]reflect.SelectCase, 0, len(cases)+1)
	for _, c := range cases {
		rc = append(rc, nativeCase(c))
	}
	if hasDefault {
		rc = append(rc, reflect.SelectCase{Dir: reflect.SelectDefault})
	}
	i, v, ok := reflect.Select(rc)
	if hasDefault && i == len(cases) {
		return -1
	}
	if st, isRecv := cases[i].(nativeSetter); isRecv {
		st.setNative(v, ok)
	}
	return i
}

type nativeSetter interface{ setNative(v reflect.Value, ok bool) }

func (c *RC[T]) setNative(v reflect.Value, ok bool) {
	c.ok = ok
	if ok {
		c.v, _ = v.Interface().(T)
	}
}

func nativeCase(c Case) reflect.SelectCase {
	switch x := c.(type) {
	case interface{ nativeSelectCase() reflect.SelectCase }:
		return x.nativeSelectCase()
	}
	panic("vsched: unknown case type")
}

func (c *RC[T]) nativeSelectCase() reflect.SelectCase {
	return reflect.SelectCase{Dir: reflect.SelectRecv, Chan: reflect.ValueOf(c.ch)}
}

func (c *SC[T]) nativeSelectCase() reflect.SelectCase {
	return reflect.SelectCase{Dir: reflect.SelectSend, Chan: reflect.ValueOf(c.ch), Send: reflect.ValueOf(&c.v).Elem()}
}
