package vsched

import (
	"reflect"
	"sync/atomic"
	"time"
)

// Free-running (native) mode: no exploration is active and every operation falls through to the
// real primitive. It is used for single-threaded set-up and for the separate -race pass that guards
// the assumption that scheduling at synchronisation operations is sufficient.

// NativeTimeScale divides the durations of After / Sleep in native mode (the -race pass runs
// scenarios whose timers are seconds long).
var NativeTimeScale = 1

var nativeLive atomic.Int64

var nativeStart = time.Now()

// nativeNow is the real clock, running NativeTimeScale times faster (consistent with After/Sleep).
func nativeNow() time.Time {
	if NativeTimeScale == 1 {
		return time.Now()
	}
	return nativeStart.Add(time.Since(nativeStart) * time.Duration(NativeTimeScale))
}

// NativeIdle waits until every goroutine started through Go / GoNamed in native mode has returned,
// or the timeout passes.
func NativeIdle(timeout time.Duration) bool {
	deadline := time.Now().Add(timeout)
	for nativeLive.Load() != 0 {
		if time.Now().After(deadline) {
			return false
		}
		time.Sleep(200 * time.Microsecond)
	}
	return true
}

// nativeSelect performs a real select (no exploration active) using reflection.
func nativeSelect(hasDefault bool, cases []Case) int {
	rc := make([]reflect.SelectCase, 0, len(cases)+1)
	for _, c := range cases {
		rc = append(rc, nativeCase(c))
	}
	if hasDefault {
		rc = append(rc, reflect.SelectCase{Dir: reflect.SelectDefault})
	}
	i, v, ok := reflect.Select(rc)
	if hasDefault && i == len(cases) {
		return -1
	}
	if st, isRecv := cases[i].(nativeSetter); isRecv {
		st.setNative(v, ok)
	}
	return i
}

type nativeSetter interface {
	setNative(v reflect.Value, ok bool)
}

func (c *RC[T]) setNative(v reflect.Value, ok bool) {
	c.ok = ok
	if ok {
		c.v, _ = v.Interface().(T)
	}
}

func nativeCase(c Case) reflect.SelectCase {
	switch x := c.(type) {
	case interface{ nativeSelectCase() reflect.SelectCase }:
		return x.nativeSelectCase()
	}
	panic("vsched: unknown case type")
}

func (c *RC[T]) nativeSelectCase() reflect.SelectCase {
	return reflect.SelectCase{Dir: reflect.SelectRecv, Chan: reflect.ValueOf(c.ch)}
}

func (c *SC[T]) nativeSelectCase() reflect.SelectCase {
	return reflect.SelectCase{Dir: reflect.SelectSend, Chan: reflect.ValueOf(c.ch), Send: reflect.ValueOf(&c.v).Elem()}
}
