package vsched

import (
	"testing"
	"time"
)

func TestDeadlockFound(t *testing.T) {
	e := &Explorer{Bound: 1, Body: func() func() []string {
		var a, b Mutex
		var wg WaitGroup
		wg.Add(2)
		Go(func() { a.Lock(); b.Lock(); b.Unlock(); a.Unlock(); wg.Done() })
		Go(func() { b.Lock(); a.Lock(); a.Unlock(); b.Unlock(); wg.Done() })
		wg.Wait()
		return nil
	}}
	e.Explore()
	if len(e.Failures) == 0 || e.Failures[0].Kind != "deadlock" {
		t.Fatalf("deadlock not found: %d executions %+v", e.Executions, e.Failures)
	}
	t.Logf("executions=%d first failure preemptions=%d", e.Executions, e.Failures[0].Preempt)
}

func TestNoDeadlockBound0(t *testing.T) {
	e := &Explorer{Bound: 0, Body: func() func() []string {
		var a, b Mutex
		var wg WaitGroup
		wg.Add(2)
		Go(func() { a.Lock(); b.Lock(); b.Unlock(); a.Unlock(); wg.Done() })
		Go(func() { b.Lock(); a.Lock(); a.Unlock(); b.Unlock(); wg.Done() })
		wg.Wait()
		return nil
	}}
	ok := e.Explore()
	if !ok || len(e.Failures) != 0 {
		t.Fatalf("unexpected: %v %+v", ok, e.Failures)
	}
	t.Logf("executions=%d", e.Executions)
}

func TestChannelsSelectTimers(t *testing.T) {
	outcomes := map[string]int{}
	e := &Explorer{Bound: 2, Body: func() func() []string {
		unbuf := make(chan int)
		buf := make(chan string, 2)
		done := make(chan struct{})
		got := ""
		Go(func() { Send(unbuf, 7); Send(buf, "a") })
		Go(func() { Send(buf, "b"); Close(done) })
		Go(func() {
			for i := 0; i < 4; i++ {
				r1 := RecvCase(unbuf)
				r2 := RecvCase(buf)
				r3 := RecvCase(done)
				r4 := RecvCase(After(time.Second))
				switch Select(false, r1, r2, r3, r4) {
				case 0:
					got += "7"
				case 1:
					got += r2.Val()
				case 2:
					got += "d"
					done = nil
				case 3:
					got += "T"
				}
			}
		})
		return func() []string { outcomes[got]++; return nil }
	}}
	if !e.Explore() || len(e.Failures) != 0 {
		t.Fatalf("failed: %+v capped=%s", e.Failures, e.Capped)
	}
	t.Logf("executions=%d outcomes=%v", e.Executions, outcomes)
	if len(outcomes) < 6 {
		t.Fatalf("too few distinct outcomes: %v", outcomes)
	}
	for k := range outcomes {
		if len(k) != 4 {
			t.Fatalf("bad outcome %q", k)
		}
	}
}

func TestReplayDeterministic(t *testing.T) {
	body := func() func() []string {
		var m Mutex
		x := 0
		var wg WaitGroup
		for i := 0; i < 3; i++ {
			wg.Add(1)
			i := i
			Go(func() { m.Lock(); x = x*10 + i; m.Unlock(); wg.Done() })
		}
		wg.Wait()
		return func() []string { return []string{"x:" + string(rune('0'+x%10))} }
	}
	var check func() []string
	s1 := Run(func() { check = body() }, Options{Prefix: []int{1, 1}})
	r1 := check()
	s2 := Run(func() { check = body() }, Options{Prefix: s1.Choices})
	r2 := check()
	if r1[0] != r2[0] || len(s1.Points) != len(s2.Points) {
		t.Fatalf("replay differs: %v %v", r1, r2)
	}
}

func TestCachePruningKeepsOutcomes(t *testing.T) {
	run := func(cache bool) (map[string]bool, int) {
		outcomes := map[string]bool{}
		e := &Explorer{Bound: 2, UseCache: cache, Body: func() func() []string {
			var m Mutex
			ch := make(chan int, 3)
			x := 0
			var wg WaitGroup
			for i := 1; i <= 3; i++ {
				i := i
				wg.Add(1)
				Go(func() {
					m.Lock()
					x = x*10 + i
					m.Unlock()
					Send(ch, i)
					m.Lock()
					x = x*10 + i
					m.Unlock()
					wg.Done()
				})
			}
			wg.Wait()
			a, b, c := Recv(ch), Recv(ch), Recv(ch)
			return func() []string {
				outcomes[string(rune('0'+a))+string(rune('0'+b))+string(rune('0'+c))+":"+itoa(x)] = true
				return nil
			}
		}}
		e.Explore()
		return outcomes, e.Executions
	}
	full, n1 := run(false)
	pruned, n2 := run(true)
	t.Logf("without cache: %d executions %d outcomes; with cache: %d executions %d outcomes", n1, len(full), n2, len(pruned))
	if len(full) != len(pruned) {
		t.Fatalf("cache pruning lost outcomes: %d vs %d", len(full), len(pruned))
	}
	for k := range full {
		if !pruned[k] {
			t.Fatalf("outcome %s lost", k)
		}
	}
	if n2 >= n1 {
		t.Fatalf("cache did not prune anything")
	}
}

func itoa(n int) string {
	s := ""
	for n > 0 {
		s = string(rune('0'+n%10)) + s
		n /= 10
	}
	return s
}
