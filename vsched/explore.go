package vsched

import (
	"fmt"
	"time"
)

// Explorer enumerates all schedules of a scenario up to a preemption bound (iterative context
// bounding): depth-first over choice prefixes; at every decision point of an execution every
// alternative whose preemption cost stays within the bound is explored.
type Explorer struct {
	Body     func() func() []string // builds a fresh scenario; returns the check run after the execution
	Bound    int
	MaxSteps int
	Deadline time.Time
	MaxFail  int

	Executions int
	Points     int
	MinPoints  int
	MaxPoints  int
	Outcomes   map[string]int
	Failures   []Failure
	Capped     string
	Shared     map[string]bool // objects known to be touched by several threads; fixed during one pass (may be seeded from an earlier bound)
	newShared  map[string]bool // objects found shared during the current pass
	UseShared  bool
	UseCache   bool            // prune by happens-before state key
	cache      map[uint64]int8 // state key -> largest remaining preemption budget explored from it
	Pruned     int
	Restarts   int
	TimerRuns  int
}

// Failure is one failing execution.
type Failure struct {
	Kind     string   `json:"kind"`
	Message  string   `json:"message"`
	Schedule []int    `json:"schedule"`
	Preempt  int      `json:"preemptions"`
	Trace    []string `json:"trace,omitempty"`
}

type Outcome struct {
	Sched    *Sched
	Problems []string
	Label    string
}

// runOne executes the scenario once with the given prefix.
func (e *Explorer) runOne(prefix []int, trace bool) (*Sched, []string) {
	var check func() []string
	var shared map[string]bool
	if e.UseShared {
		shared = e.Shared
	}
	s := Run(func() { check = e.Body() }, Options{Prefix: prefix, MaxSteps: e.MaxSteps, Trace: trace, Shared: shared})
	var problems []string
	if s.Failure != "" {
		problems = append(problems, s.FailKind+": "+s.Failure)
	} else if check != nil {
		problems = check()
	}
	return s, problems
}

func preemptionsBefore(points []Point, i int) int {
	n := 0
	for _, p := range points[:i] {
		if p.Chosen != 0 && p.RunningEnabled && !p.Free {
			n++
		}
	}
	return n
}

// Explore runs the search. It returns true if the bound was completed (not capped).
func (e *Explorer) Explore() bool {
	if e.Outcomes == nil {
		e.Outcomes = map[string]int{}
	}
	if e.MaxFail == 0 {
		e.MaxFail = 3
	}
	if e.UseShared && e.Shared == nil {
		e.Shared = map[string]bool{}
	}
	for {
		e.MinPoints = 1 << 30
		grew := false
		e.newShared = map[string]bool{}
		e.cache = map[uint64]int8{}
		complete := e.explore(nil, &grew)
		for id := range e.newShared {
			e.Shared[id] = true
		}
		if !complete && len(e.Failures) > 0 {
			return false
		}
		if !grew || !e.UseShared {
			return complete
		}
		if !e.Deadline.IsZero() && time.Now().After(e.Deadline) {
			return false
		}
		e.Capped = ""
		// an object turned out to be shared between threads: executions explored so far may have
		// skipped decision points on it; start over with the larger set (fix-point)
		e.Restarts++
		e.Executions, e.Points = 0, 0
		e.Outcomes = map[string]int{}
	}
}

func (e *Explorer) explore(prefix []int, grew *bool) bool {
	if !e.Deadline.IsZero() && time.Now().After(e.Deadline) {
		e.Capped = "time limit"
		return false
	}
	s, problems := e.runOne(prefix, false)
	e.Executions++
	e.Points += len(s.Points)
	if len(s.Points) < e.MinPoints {
		e.MinPoints = len(s.Points)
	}
	if len(s.Points) > e.MaxPoints {
		e.MaxPoints = len(s.Points)
	}
	if e.UseShared {
		for id, n := range s.Touched() {
			if n > 1 && !e.Shared[id] && !e.newShared[id] {
				e.newShared[id] = true
				*grew = true
			}
		}
	}
	if len(problems) > 0 {
		e.Outcomes["FAIL"]++
		st, traced := e.runOne(s.Choices, true) // replay with tracing: sites of blocked operations, trace
		if len(traced) == len(problems) {
			problems = traced
		}
		for _, p := range problems {
			e.Failures = append(e.Failures, Failure{Kind: kindOf(p), Message: p, Schedule: append([]int{}, s.Choices...),
				Preempt: preemptionsBefore(s.Points, len(s.Points)), Trace: st.Trace})
		}
		if len(e.Failures) >= e.MaxFail {
			e.Capped = fmt.Sprintf("stopped after %d failing executions", len(e.Failures))
			return false
		}
		return true // do not explore below a failing execution's own suffixes beyond this point
	}
	for i := len(prefix); i < len(s.Points); i++ {
		p := s.Points[i]
		cost := preemptionsBefore(s.Points, i)
		if e.UseCache {
			budget := int8(e.Bound - cost)
			if b, seen := e.cache[p.Key]; seen && b >= budget {
				// this state was (or is being) explored with at least this budget: every
				// continuation from here, including the rest of this execution, is covered
				e.Pruned++
				break
			}
			e.cache[p.Key] = budget
		}
		for alt := 1; alt < p.Enabled; alt++ {
			c := cost
			if p.RunningEnabled && !p.Free {
				c++
			}
			if c > e.Bound {
				continue
			}
			next := append(append([]int{}, s.Choices[:i]...), alt)
			if !e.explore(next, grew) {
				return false
			}
		}
	}
	return true
}

func kindOf(p string) string {
	for i := 0; i < len(p); i++ {
		if p[i] == ':' {
			return p[:i]
		}
	}
	return p
}

// Label lets a scenario's check report an outcome label for statistics.
func (e *Explorer) Label(l string) {
	if e.Outcomes == nil {
		e.Outcomes = map[string]int{}
	}
	e.Outcomes[l]++
}
