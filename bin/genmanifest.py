#!/usr/bin/env python3
"""Generates /verif/MANIFEST.json from the table below (keeps it valid and in one place)."""
import json, subprocess

props = [json.loads(l) for l in open('/verif/properties.jsonl')]

GO = "export GOFLAGS=-mod=mod GOPROXY=off GOSUMDB=off GOTOOLCHAIN=local"

A_NOTE = ("bounded: number of submitted headers / maintenance operations per history as listed in the evidence; "
          "header universe of unit-work and double-work children; proof-of-work switch off (the repository's own test switch); "
          "atomic-key in-memory storage; reference block-tree model in /verif/ref is trusted")
A_TECH = "explicit-state model checking of the implementation: BFS over operation histories on the real headers.Repository, exact state de-duplication (hooked internal dump + storage digest), reference block-tree model as oracle"

checks = {
 "C01": dict(engine="hdrmc", cat="model_checking", ref="DESIGN.md 3, 7 C01",
   text="every history of submissions (all tree shapes / arrival orders within the bound), duplicates, orphans, Clean (also with scaled prune depths and stale side branches that grow later, and the automatic clean at height 10000 with forks pending), Save+Load, marking and unmarking, from genesis and on 1000/10000/20000-header base chains, is executed on the real repository; after every step the reported tip and per-height chain are compared with the reference block tree (maximal cumulative work among accepted headers, exact ancestry)",
   note=A_NOTE, tech=A_TECH),
 "C07": dict(engine="hdrmc", cat="model_checking", ref="DESIGN.md 3, 7 C07",
   text="all histories with 1-2 subscribers registered at any point (from genesis, and on base chains of 9997 / 9998 headers with forks and extensions across the automatic clean at height 10000; a subscriber lagging 12000 announcements behind; two concurrent submitters with the subscriber's buffer exactly full): the batch drained after every operation must equal the new best chain above the fork point, and a subscriber-side replayer must reconstruct exactly the reported chain",
   note=A_NOTE, tech=A_TECH),
 "C08": dict(engine="hdrmc+powenum", cat="model_checking", ref="DESIGN.md 3, 7 C08",
   text="at every reachable state every adversarial next header (orphan, duplicate of any known header, child at/over the fork-depth limit for MaxBranchDepth 0,1,2,144, configured-invalid incl. a configured list that grows at a restart, wrong-chain under a synthetic split table, bad work) must get a verdict the set-valued reference allows, and after a non-accepting answer all read APIs and a subsequent Save image are identical",
   note=A_NOTE + "; verdicts for headers attaching below the retained depth are treated as unspecified", tech=A_TECH),
 "C09": dict(engine="hdrmc", cat="model_checking", ref="DESIGN.md 3, 7 C09",
   text="in every reachable state (forks, consolidation, pruning with scaled and real prune depth, reload, file boundaries) HashHeight / CheckHeader / GetHeader / PreviousHash / Hash / Header / GetHeaders are compared with the reference tree for every accepted header, every height and a set of ranges, plus unknown hashes",
   note=A_NOTE + "; scaled prune depth through the verif hook VerifClean/VerifLoad (checked equal to Clean at depth 10000)", tech=A_TECH),
 "C10": dict(engine="hdrmc", cat="model_checking", ref="DESIGN.md 3, 7 C10",
   text="Clean at every position of every history (real Clean, scaled prune depths 2-4, base chains across file/prune boundaries, chains grown by 4-5 headers at once with stale side branches that have live branches forking from them): observables identical before/after, and all later verdicts, tips and lookups still agree with a reference model that is unaware of Clean",
   note=A_NOTE, tech=A_TECH),
 "C11": dict(engine="hdrmc", cat="model_checking", ref="DESIGN.md 3, 7 C11",
   text="Save+Load at every position (up to 3 generations, scaled prune depth, base chains, empty storage): observables identical, and a differential continuation (same history with every reload replaced by a plain save) must give the same verdicts and tips",
   note=A_NOTE + "; equal-work ties and side branches whose fork point lies below the retained depth are exempt as the statement leaves them open", tech=A_TECH),
 "C12": dict(engine="hdrmc", cat="fault_enumeration", ref="DESIGN.md 3, 7 C12",
   text="for every Clean/Save in every history, every prefix of its recorded Write/Remove sequence is materialised as a storage image and loaded by a fresh repository: Load must succeed without panic, the chain must be linked accepted headers with at least the work of the last completed Save; and every recovered repository then continues (three more headers, Save, restart with a short retained depth) and must again report the linked chain of accepted headers. Includes a reorganisation across a header-file boundary on a saved chain of 1005 headers",
   note=A_NOTE + "; single-key writes atomic (as the property states)", tech="exhaustive crash-point enumeration over the real write sequence of every explored history (explicit-state search + fault injection at every storage call)"),
 "C17": dict(engine="hdrmc", cat="model_checking", ref="DESIGN.md 3, 7 C17",
   text="all histories with mark/unmark of best-chain, side-branch, first-of-branch, unseen, unknown and already-marked hashes, followed by resubmission, competitors, Save+Load, marking between two persistence operations (Save, mark, Save+Load), and marking after the repository was pruned (Clean/Load with depth 2-3 on a grown chain: lowest retained header, already pruned header): tip = heaviest remaining (retained) accepted header, marked subtree never flagged in the best chain, verdicts per reference",
   note=A_NOTE, tech=A_TECH),
 "C18": dict(engine="hdrmc+powenum", cat="model_checking", ref="DESIGN.md 3, 7 C18",
   text="in every state of a reduced exploration every accepted header x every transaction position x {with header, hash only} (histories include marking headers invalid; a removed header's block is never reported on the best chain): valid proof must return the model's (height, in-best-chain); every single-element corruption (txid, each path element, index xor/shift/overflow/negative, duplicate list, path length, header, block hash, missing target) must be refused, and so must a right-path proof for every header that was submitted and refused or never submitted (with header, hash only, both)",
   note=A_NOTE + "; blocks of 1-4 transactions derived from the header label", tech=A_TECH + "; proofs built by an independent merkle implementation"),
 "C19": dict(engine="hdrmc+netmc", cat="model_checking", ref="DESIGN.md 3, 7 C19",
   text="in every state: locator for max 1,2,3,10,50 and the verify-only locator are checked for membership, order, start at tip-1, length, duplicates; protocol-conformant peers on every accepted tip (and 1-2 headers ahead) are simulated and their first reply header is submitted to the real repository; the locators are also requested after every operation of the history (a read must not influence later answers), including histories that remove a side branch while the tip stays (mark invalid). Wire part (netmc): a ready real node whose peer has stopped reading (from before the verifying reply, or from the ready state), every sequence of up to 4 operations over {header request, extend the tip, overtaking fork, mark the tip invalid}, then the peer reads again: every getheaders message on the wire must carry the locator the repository gave when that request was made",
   note=A_NOTE + "; synthetic split table at heights 2/3 and the real mainnet table on base chains", tech=A_TECH),
 "C02": dict(engine="powenum", cat="exploration", ref="DESIGN.md 6, 7 C02",
   text="three complete finite spaces through the real code: (1) Branch.Target on real Branch objects (root and fork branches straddling either median window; and with 0..149 of the 150 window headers pruned from memory: the required answer or an error, never a nil target without error) for all 3^6 order/tie patterns of the six headers that matter x 11 time-span classes (incl. more than 2^31 s apart) x bits patterns, compared with a reference implementation of the network's 144-block algorithm; (2) every exponent byte 0..255 x 11 mantissas through ProcessHeader and HandleHeadersMessage: no panic for any encoding, refusal whenever the hash exceeds a well-defined target (incl. zero targets); (3) both real mainnet fixture chains (incl. the 556767 split) accepted with difficulty checking on, and 15 single-field mutations of every header in a window refused with the right error class; (4) a header with real proof of work (nonce mined once, recorded as a constant) on a fork that is not the most-work branch where the two branches require different bits: accepted iff its bits equal the target computed on its own branch; (5) a second mined header claiming the proof-of-work limit at exactly the first height with an enforced target (556767) on a chain that requires half the limit: refused as invalid target; (6) the real 725000 chain after it lost the lead to a heavier mock branch, with and without Clean / Save in between: the following real headers are accepted at the right heights on the demoted chain",
   note="apart from the one recorded mined nonce no header meeting a small target can be constructed, so the accept side rests on the real chain; negative/overflowing encodings only need to not crash; reference DAA/compact codec in /verif/ref written from the published node algorithm",
   tech="bounded-exhaustive enumeration of finite input spaces on the implementation against a reference (exhaustive: true)"),
 "C03": dict(engine="hdrmc+netmc+schedmc", cat="model_checking", ref="DESIGN.md 3, 5, 7 C03",
   text="repository part: all histories under a synthetic split table (required split at height 3, foreign splits at 2 and 3; forks created below and grown through the split heights; foreign split headers offered in every state with known and unknown parents): no header but the required one is ever held at the required height on any branch, foreign split headers always answered wrong-chain; plus the real mainnet table on the real 556000-556800 chain (BSV accepted, BCH / arbitrary headers refused at 556767 on the main chain and on forks started at 556765-556767, published constants, verify-only locator). Peer part: BFS over message histories (version/verack in every order and repetition, 8 kinds of headers replies, other letters) on a real node, full and verify-only, starting from a genesis-only repository and from one that already knows the first headers of the reply: Verified()/IsReady() iff the first header of the first headers message after handshake completion is the BSV split header, otherwise disconnected",
   note="peer part: node runs free on an in-memory connection (scheduling inside the node not enumerated; violations must reproduce 3/3); the BTC split header is not available offline, BTC is covered through the synthetic table and the constants check",
   tech="explicit-state model checking of the implementation (header repository BFS with reference model; message-history BFS on a real node) and stateless model checking (exhaustive schedule enumeration under a cooperative scheduler) of several connections verified at the same time"),
 "C13": dict(engine="netmc+schedmc", cat="model_checking", ref="DESIGN.md 5, 7 C13",
   text="BFS over all message histories (30 letters: handshake messages in any order/repetition, headers of 8 kinds, addr, inv, tx, block, extended messages, getaddr, protoconf, reject, unknown commands...) from connect and from handshake-complete, for full nodes with and without tx manager and verify-only nodes registered with a NodeManager, also with a repository that knows no chain split points, and with a framed headers message followed by the unframed payload of a verifying reply: while Verified() is false no ProcessHeader / peer-book Add,UpdateScore / tx-manager entry / processor call may be recorded by the spies, the node may only have sent version, verack, ping, pong, protoconf and one getheaders, and NodeManager requests must not be routed through it; verify-only nodes disconnect right after successful verification. Manager part: 1-3 connections registered with one NodeManager, each peer in one of 5 protocol states (silent, version only, handshake complete, handshake complete + headers, verified), every sequence of up to 3 (thorough 4) RequestHeaders / RequestBlock / SendTx calls: no getheaders beyond the connection's own verification request, no getdata, no tx and no block request may reach a connection whose peer is not verified. Stalled-peer part: the peer stops reading (the node's writes block) before the version, the verack, the verifying reply or after it, followed by every sequence of up to 2 further messages, for verify-only and full nodes: a verify-only connection still disconnects at once and passes nothing on",
   note="node runs free on an in-memory connection; oracles are spy observations (conclusive when they fire); state key = hooked node dump + spy counters + sent-command counts",
   tech="explicit-state model checking of the implementation (BFS over message histories, state de-duplication by hooked node dump)"),
 "C14": dict(engine="netmc+schedmc", cat="model_checking", ref="DESIGN.md 5, 7 C14",
   text="from the ready state (with/without tx manager, with/without a requested block) and from handshake-complete: all sequences of up to 2/3 letters over the full 45-letter alphabet (known and unknown commands, payloads 0 B - 4 MiB, classic and extended framing, requested/unrequested blocks and txs, empty/full lists), extended to depth 13 along state-changing letters (repeated version, verack, protoconf, getaddr, inv, tx, headers), the same alphabet to depth 2 with the stream delivered in pieces (reads of at most 7 bytes and of 1 byte), and headers messages of 252 / 253 / 300 headers that the repository accepts (proof-of-work checking off); a block requested and cancelled before delivery; after every letter a ping must be answered with its nonce while the connection is up. Dispatcher part (schedmc): the real handleMessage with a header repository that takes 1 s / 4 s / 70 s of virtual time to process a header, followed by a ping: the stream is not read again before the handler of the previous message has finished",
   note="a missing pong is judged after 4 s (normal latency is tens of microseconds) and only reported if it reproduces 3/3; node scheduling is free-running",
   tech="explicit-state model checking of the implementation (BFS over message histories with a ping barrier after every message)"),
 "C15": dict(engine="netmc+schedmc", cat="exploration", ref="DESIGN.md 5, 7 C15",
   text="complete structured enumeration of hostile byte streams (5 session stages x 19 base messages x frame/field mutations, extended headers with lengths up to 2^64-1 and no data, headers with 14 bits encodings x 4 timestamps, transactions with hostile counts in classic / extended / in-block form, hostile block transaction counts, block frame shorter than content; thorough adds (mutated, valid) pairs) delivered to real nodes in worker processes under an address-space limit; a dying worker identifies the case; Run must return after the peer closes; a healthy witness node sharing the repositories must keep answering. Concurrent part (schedmc): the real MessageChannel (outgoing queue of capacity 1-2) with 1-3 handler threads adding replies, the sender thread draining and 1-2 stops closing the queue, every interleaving up to preemption bound 2 (3): no panic (send on a closed channel aborts the process), no deadlock, every message whose Add succeeded is handed to the sender exactly once; and the real message dispatcher (handleMessage with extended / classic tx, block, inv, headers, addr messages) next to RequestBlock / CancelBlockRequest / RequestHeaders callers, explored to bound 1 and run free under the race detector, where an unsynchronised access to a Go map (which aborts the process) is a violation",
   note="crash = worker process death; 8 GB address-space limit on workers; findings rooted in the tokenized/pkg/wire dependency are listed in KNOWN_FINDINGS.txt",
   tech="bounded-exhaustive enumeration of structured hostile inputs on the implementation in isolated worker processes; stateless model checking (exhaustive schedule enumeration under a cooperative scheduler) of the outgoing queue against stop"),
 "C04": dict(engine="blkenum+schedmc", cat="fault_enumeration", ref="DESIGN.md 6, 7 C04",
   text="complete Cartesian enumeration of block size (1-8/9) x relevant subset x corruption/fault kind x position through the real BlockDownloader.HandleBlock with a recording processor/store: confirmation-stage calls occur only for the requested header with full count and matching merkle root and no earlier fault; then exactly coinbase, the relevant occurrences in block order with proofs that verify (also recomputed by an independent merkle implementation), the txid record last; Complete is nil iff all of it happened. Concurrent part (schedmc): the confirmation phase of a download of 2 and 3 relevant transactions against manager Cancel, peer Stop and shutdown interrupt (every subset of up to two), all interleavings up to preemption bound 1-2: a block recorded as processed has had every relevant transaction confirmed",
   note="enumeration part: HandleBlock driven directly with a pre-filled closed channel (sequential); the node-side framing leg is covered by the C14/C15 checks",
   tech="bounded-exhaustive input and fault-position enumeration on the implementation against a reference; stateless model checking (exhaustive schedule enumeration) of the confirmation phase against cancel / stop / interrupt"),
 "C05": dict(engine="schedmc", cat="model_checking", ref="DESIGN.md 4, 7 C05",
   text="the real NodeManager.TriggerBlockSynchronize / runSynchronizeBlocks / synchronizeBlocks, the real BlockManager and BlockDownloader and the threads library, instrumented and run under the controlled scheduler on a real (native) headers.Repository, with a scripted block source and recording processor/store: chain length 1-3(4) x start height tip-2..tip+1 x processed sets (prefixes and a gap) x source failures (node drops, no node available twice, wrong block served) x events during synchronisation (one and two extra triggers, new header + trigger, 1- and 2-deep reorganisation + trigger, a source that stays silent past the orphan check while the chain reorganises underneath, a transient error of the transaction processor while a block is confirmed, and - with two concurrent requests - an asynchronous source that stalls mid-download while a second one finishes first), every ordering at call granularity (preemption bound 0; bound 1-2 in the thorough tier). Oracles: no request below the start height, none for a block already recorded, processing ascending, contiguous on one chain and at most once per block, every owed best-chain block processed at quiescence, no deadlock / endless polling",
   note="the property quantifies over histories, configurations and fault sequences, not schedules, so the block source answers inside RequestBlock (no node/handler threads); interleavings of delivery/cancel/stop are C16's subject; virtual time",
   tech="stateless model checking of the implementation under a hand-written cooperative scheduler: exhaustive enumeration of schedules at call granularity over an enumerated set of configurations / fault sequences"),
 "C06": dict(engine="schedmc+netmc", cat="model_checking", ref="DESIGN.md 4, 7 C06",
   text="the real TxManager (AddTxID, AddTx, GetTxRequests, Run) instrumented by source rewriting and run under a controlled scheduler: for every pair of peer scripts over {announce, deliver} of length <= 2 (and 3 peers / 2 transactions / retry polls after a virtual-clock advance past the request timeout / three announcers of one old undelivered transaction with the clock passing the timeout at any point / the periodic Clean running next to two announcing or delivering peers with an expired entry in the same bucket, and with its cut-off between a request and the delivery), all interleavings up to preemption bound 2 (1 for the retry-poll scenarios) are executed; every execution's call/return history, projected to each single transaction, must be linearizable (porcupine) against a map model of 'request from exactly one announcer per timeout window, retry per announcer after the timeout, never after delivery', and the processor / saver must have seen each delivered transaction exactly once. Sequential parts: poll caps, announcer sets of several outstanding transactions, the Clean cut-off. Wire part (netmc): a ready real node receives inventories of 0, 1, 2, 49999, 50000, 50001, 50010 (thorough: up to 120000) never-seen transactions, in one message and split over two; the getdata messages it writes are parsed: every announced transaction is requested exactly once and nothing else",
   note="interleavings at synchronisation operations (sequential consistency); preemption-bounded; virtual time; retry polls (incl. polls whose max is smaller than the eligible set of one bucket) complete to bound 1 because one poll is ~520 scheduling points; linearizability is per transaction because the statement is (a poll is not atomic across different transactions); the end-to-end inv->getdata->tx wire leg is exercised by the C13/C14 message-history checks, not here",
   tech="stateless model checking of the implementation: exhaustive enumeration of thread schedules under a hand-written cooperative scheduler (iterative preemption bounding, happens-before state caching), linearizability checking of every execution"),
 "C16": dict(engine="schedmc", cat="model_checking", ref="DESIGN.md 4, 7 C16",
   text="the real BlockDownloader and BlockManager (and the threads library) instrumented by source rewriting and run under a controlled scheduler. Layer 1: downloader.Run + a node actor following the BlockRequestor/Canceller contract (block of 0-2 transactions, wrong hash, processor error, short stream, no delivery) + every subset of {manager Cancel, peer Stop, shutdown interrupt}; layer 2: the real BitcoinNode.RequestBlock / CancelBlockRequest / handleBlock and stop path (hooks VerifOpenOutgoing, VerifSetInterrupt, VerifHandleBlock, VerifStopBlock) against the real downloader with the same disturbances; layer 3: BlockManager.Run with 1-2 queued requests, concurrency 1-3, scripted nodes that deliver / deliver slowly / drop / drop while the handler is busy / stay silent / are unavailable, abort and interrupt at any time (also with four downloads of one block in flight), with the number of registered downloads of the block checked against the configured limit at every new request and every in-flight node required to be told to cancel at shutdown. A Run (downloader or manager) that needs one of the downloader's fallback timers (ten-minute cancel wait, one-hour download timeout) although every stream ends is a violation. All interleavings up to preemption bound 2 (manager scenarios with abort/interrupt: bound 0-1). Oracles: no deadlock (the scheduler knows exactly who waits on what), no unbounded polling (step horizon), Run returns, exactly one terminal signal per request, downloader list empty at quiescence, completion only after a recorded successful download, no double processing",
   note="the node's connection threads are not run under the scheduler (layer 2 drives the node's block functions directly; VerifStopBlock copies the lines of run that follow the threads' stop); runs that end only through a virtual timeout are listed as outcomes (via-timeout), not alarmed",
   tech="stateless model checking of the implementation: exhaustive enumeration of thread schedules under a hand-written cooperative scheduler (iterative preemption bounding, happens-before state caching)"),
 "C20": dict(engine="peermc+schedmc", cat="model_checking", ref="DESIGN.md 6, 7 C20",
   text="BFS over all histories of Add/UpdateScore/UpdateTime/Save/Load/Clear (2-5 addresses incl. empty, 300-byte, non-ASCII, IPv6; deltas +-1,+-5) on the real StoragePeerRepository against a map model, all 36 Get(min,max) ranges (all issued before any result is inspected, so a result must stay intact while later queries run) and Count compared in every state; every prefix of every saved file reached is loaded; 17 structured arbitrary file contents (bad version, negative / huge counts and lengths, duplicates, garbage) are loaded in worker subprocesses under an address-space limit; concurrent callers: 2-3 threads x <=3 operations on colliding addresses under the controlled scheduler (all interleavings to preemption bound 2), every history linearizable (porcupine) against the map model, with the membership of a query result read after a yield, storage writes and removes as switch points, and a final observation of what a restart would load linearized against the last Save / Clear",
   note="last-seen times are wall-clock and only checked to lie inside the call window; atomic single-key storage",
   tech="explicit-state model checking of the implementation (BFS over operation histories, model-state de-duplication) plus exhaustive file-prefix enumeration"),
}

# additions of seed round 8 (appended to the descriptions above)
extra = {
 "C01": "; two concurrent submitters while a reorganisation's announcement waits for a full subscriber buffer (one makes the side branch overtake, the other extends the chain that is still reported)",
 "C02": "; (8) mined headers claiming the proof-of-work limit as the FIRST header of a new branch: off a fork that requires half the limit (refused, unknown afterwards) and off the main branch that requires the limit (accepted)",
 "C04": "; sequence part: every verified block followed in one process by every case of up to 3 transactions, with a store that retains the list it is handed - every record is re-read after every download",
 "C06": "; node-manager part: the real NodeManager.RequestTxs over three ready BitcoinNodes, any subset of them stopping (outgoing queue closed, not yet marked not-ready), all announcer sets of two transactions, three request windows of three polls: a transaction is only requested from a node that announced it, never twice from one node, at most once per window",
 "C07": "; submissions with an already-cancelled context while the subscriber's buffer is full; a second submitter extending the still-reported chain during a waiting reorganisation",
 "C08": "; restarts that are not preceded by a Save (while storage holds exactly the accepted headers) around marks of known and not-yet-seen hashes",
 "C10": "; a header marked invalid between two cleans, regrowth past the heights already written, then pruning",
 "C11": "; first start on empty storage with a configured invalid hash; legacy version-0 header files (2 / 1000 / 1001 headers, thorough also 999 / 2500) migrated by Load, with a configured invalid hash",
 "C12": "; every crash image is loaded twice: with the default retained depth and with the smallest depth the production relation allows (everything above the lowest fork point of the accepted tree, at least 2 headers)",
 "C13": "; sessions in which the transaction manager is attached while the node is running (at any point, to the node or through the node manager)",
 "C19": "; best chains ending in an unconsolidated new branch of every length 2..22 (thorough ..41); a locator hash that is not on the best chain must be the base of a branch the repository tracks at that moment",
 "C20": "; every arbitrary file loaded is followed by a score update of every held address, range queries, Save and Load",
}
# additions of seed round 9
extra9 = {
 "C02": "; (9) self-consistent chains near the proof-of-work limit (window work about 2^39) with block spacings 300..900 s, Branch.Target compared with the reference at every height 147..450 (thorough: 19 spacings, ..900)",
 "C05": "; a store whose FetchBlockTxIDs fails once during the walk-back (round ends with an error) followed by a trigger a minute later",
 "C06": "; one transaction per shard of the tx manager (first txid byte 0x00..0xff): one poll after the timeout must offer all 256 to the second announcer",
 "C07": "; submissions reaching a multiple of 10000 with the 1st..6th storage call of the automatic clean failing",
 "C11": "; equal-work tips are compared by identity (a restart must not change which of them is reported)",
 "C12": "; a Save whose every storage call was made counts as the last completed Save for its own final image",
 "C13": "; sessions in which the peer waits out the node's 3 s handshake timer (after nothing, after version, after verack) and then continues",
 "C16": "; blocks of 1100 transactions (more than the 1000-entry hand-over channel): healthy, processor error, wrong block, each with and without Cancel, in the real-node layer",
 "C17": "; two marks on doubly nested forks next to an unrelated earlier branch (6 headers)",
 "C18": "; mark, growth and pruning at depth 2 (removed blocks' hashes below what the main branch holds in memory)",
}
# additions of seed round 10
extra10 = {
 "C01": "; the lookup API is called after every operation of every history (a read must not influence later answers); grow, prune, grow, prune scenarios",
 "C03": "; concurrent part (schedmc): two or three real nodes past their handshake share one repository whose lock is a switch point, each handles its peer's verification reply in every interleaving up to 2 preemptions: a peer is verified exactly when its own reply starts with the BSV split header",
 "C05": "; scenarios in which every call into the header repository is a switch point, with a header or reorganisation arriving between two reads of one round (preemption bound 1)",
 "C06": "; polls while the first request is outstanding request nothing; every later window asks one further announcer",
 "C10": "; lookups after every operation",
 "C11": "; Save followed by Load on the same instance; a chain migrated from legacy files by this very start",
 "C14": "; 18 other connections of the process fail inside a message first (peer gone mid-payload, wrong checksum, undecodable payload); a decoding / short-read error on well-formed traffic is a violation",
 "C15": "; non-canonical and cut varints; per-header transaction counts; headers payloads ending at every offset",
 "C16": "; the real BitcoinNode.run under the scheduler over a scripted connection (fixed set-up phase, then block request, Cancel and peer drop in every interleaving up to one preemption)",
 "C17": "; marks on headers of a chain migrated from legacy files by this very start",
 "C18": "; lookups after every operation; grow, prune, grow, prune scenarios",
}
# additions of seed round 11
extra11 = {
 "C02": "; the mined activation-boundary header and the second real chain with its mutations are also offered to a repository configured for a network without chain split table",
 "C05": "; five sources for one block (four never answer, one delivers; and four silent ones with the block leaving the best chain): every in-flight source of a finished or abandoned block must be told to cancel - explored is the window of the cancel loop (every schedule inside it, one canonical schedule before and after)",
 "C06": "; a transaction delivered twice (by two peers, or twice by one) next to another that stays outstanding with a second announcer, then the retry poll",
 "C09": "; two prunes with growth in between on one instance (the header file holding the prune boundary is rewritten after it was read)",
 "C13": "; histories that differ in how often version / verack were received before the handshake completed (up to 4 each) are distinct states",
 "C14": "; a secondary headers handler installed, verifying replies of 1 / 2 / 30 / 2000 headers, reads of any size / 7 / 700 bytes",
 "C15": "; two further stages (before / after the handshake) on a repository without chain split points (any network but mainnet: empty verification locator)",
 "C17": "; first starts through Load with a configured list that repeats a hash or holds two, configured hashes unmarked like any other, one configuration value handed to every instance of a history, the configured list merged again at every restart",
}
# additions of seed round 15
extra15 = {
 "C03": "; a repository of another network is created first in the process",
 "C04": "; Cancel twice and Stop followed by Cancel at every ProcessTx call; announced counts larger than the stream by 2^8 .. 2^63+2^32",
 "C06": "; two waiting announcers polled at the same time by two threads after the timeout; back pressure: 1010 deliveries while the processor's first call takes 11 s (hand-over channel of 1000)",
 "C12": "; six-header histories over two unit-work slots with a mark before the Save / Clean that is stopped",
 "C08": "; seven-header histories (reorganisations between a branch of a branch and an unrelated later fork)",
 "C10": "; a Clean whose 1st .. 6th storage call fails (reports unchanged, later submissions follow the reference tree)",
 "C11": "; a side branch of many light headers taller than the heavier best chain by more than the restart keeps",
 "C15": "; reject messages for 14 commands x 4 codes at every stage; nine well-formed messages sent twice and three times in a row in three stages (Run must return)",
 "C16": "; a source whose block arrives while the manager is inside its next call to the requestor; twelve AddRequest calls on a silent source (queue full, the twelfth blocked) and an interrupt: Run returns through the interrupt",
 "C18": "; proofs for blocks of the real chain (556000..557500, cleaned keeping 300) while a header is marked invalid and pruned history has been brought back from the header files: true height and best-chain flag, with header and by hash (powenum part, merged)",
 "C20": "; books of 999..2003 peers with every range query counted against the scores, before and after Save + Load",
}
# additions of seed round 14
extra14 = {
 "C03": "; verification replies handled while the repository is busy (its lock held for 1 s / 5 s / 90 s of virtual time): verified exactly for the BSV split header however long the handler waits",
 "C05": "; a source that delivers every transaction and withholds the end of its stream for 12 s while a second source finishes",
 "C06": "; the node manager's retry poll with one and two nodes left",
 "C08": "; the bad-work / bad-bits verdict with the difficulty rules on: mined headers with right and wrong bits on main and side branches, the demoted real chain (powenum parts, merged)",
 "C09": "; a header removed by marking is never reported as in the most-work chain",
 "C13": "; on a repository without split points no peer is ever verified, whatever other connections of the process were shown",
 "C15": "; messages left five bytes short with the connection open while the node is shut down",
 "C17": "; an unmark with a second caller's mark arriving inside its write of the invalid list",
 "C18": "; proofs that bring a merkle root of their own",
 "C19": "; the tip the locator starts from must be the most-work tip of the reference tree (C01 oracle in every scenario)",
 "C20": "; the free-running race-detector pass in the quick tier: an unsynchronised access pair inside the peer book is a violation",
}
# additions of seed round 13
extra13 = {
 "C02": "; marks at 145 / 146 / 147 headers above the lowest header in memory",
 "C05": "; a source that stays silent past the two-minute start timeout and starts to deliver after 150 s, and a started download that stalls past the one-hour download timeout (stream ends after 4000 s), each with another source serving the block meanwhile",
 "C06": "; deliveries that arrive before the processor is attached (it is attached, and Run started, when the peers are done)",
 "C07": "; fork-depth limits 1 and 2 with a fork that stays alive while the best chain grows past it and then overtakes (grow operations count as submissions)",
 "C13": "; scheduler part (schedmc): the real BitcoinNode.run of a verify-only node under the controlled scheduler with the verifying reply and addr / headers messages behind it in the connection at once - in every interleaving up to 1 (thorough 2) preemptions nothing behind the reply reaches the header repository or the address book",
 "C15": "; a ready peer on a repository with proof-of-work checking off receives every ordered triple of seven short universe header chains as three well-formed headers messages (reorganisations to child, parent, sibling and cousin branches inside the handler goroutine)",
}
# additions of seed round 12
extra12 = {
 "C01": "; a long side branch that stays behind with a branch of its own, across a restart that keeps less than the outer fork depth, the inner one then overtaking; headers accepted after the latest prune count as held wherever they hang",
 "C02": "; the real chain 556000..557500 with checking on, cleaned keeping 300 headers, one header marked invalid and unmarked (far above / at / just below / deep below the lowest header in memory), then every real header from there on must be accepted again",
 "C03": "; the chain grown past the synthetic split heights and pruned (Clean / restart keeping 2 or 3 headers): foreign split headers whose parents are known only by height are still wrong-chain",
 "C05": "; a source that never answers with a reorganisation 17 s into the request (after the first 10 s check)",
 "C06": "; a new announcer after the timeout with 1..3 others still waiting: each of them is offered the transaction by its polls, one per window",
 "C11": "; MaxBranchDepth 1 with the full and a depth-4 restart (stale side branches further below the tip than new forks may start)",
 "C12": "; six-header histories on a two-header prefix (three branches, one tying the new tip); histories in which a header of the saved chain is marked invalid before the next Save / Clean",
 "C13": "; sessions on a repository that holds the headers its verification locator names (synthetic split over preloaded blocks)",
 "C14": "; the requested block delivered in two parts (split at six offsets, classic and extended framing) with Cancel issued by another goroutine during the pause",
 "C16": "; no source at all (the manager gives up by itself) with one and two requests in the quick tier",
}
for k, v in extra12.items():
    checks[k]["text"] += v
for k, v in extra13.items():
    checks[k]["text"] += v
for k, v in extra14.items():
    checks[k]["text"] += v
for k, v in extra15.items():
    checks[k]["text"] += v
for k, v in extra.items():
    checks[k]["text"] += v
for k, v in extra11.items():
    checks[k]["text"] += v
for k, v in extra10.items():
    checks[k]["text"] += v
for k, v in extra9.items():
    checks[k]["text"] += v

hook_commits = subprocess.run("git -C /repo log --format=%h --grep='verif-tagged' --grep='verif hook' -i", shell=True, capture_output=True, text=True).stdout.split()

engines = {}
entries = []
for pid, c in checks.items():
    for e in c["engine"].split("+"):
        engines.setdefault(e, []).append(pid)
    entries.append({
        "property_id": pid,
        "quick_cmd": f"bin/check {pid} quick",
        "thorough_cmd": f"bin/check {pid} thorough",
        "evidence_file": f"evidence/{pid}.json",
        "replay_cmd_template": f"bin/check {pid} quick --replay {{path}}",
        "engine": c["engine"],
        "level_claimed": {"category": c["cat"], "text": c["text"], "design_ref": c["ref"]},
        "level_note": c["note"],
        "technique": c["tech"],
    })

kinds = {
 "powenum": "complete enumeration of difficulty-algorithm inputs, compact-bits encodings and real-chain mutations through the real headers package",
 "blkenum": "complete enumeration of block contents x corruptions x fault positions through the real BlockDownloader.HandleBlock",
 "peermc": "explicit-state BFS over operation histories on the real StoragePeerRepository against a map model; file-prefix enumeration; arbitrary-content loads in limited worker subprocesses",
 "schedmc": "source-rewriting instrumentation (cmd/instr) + cooperative scheduler (vsched): every interleaving of the real goroutines up to a preemption bound, virtual time, deadlock / livelock detection",
 "netmc": "explicit-state BFS over wire-message histories delivered to a real BitcoinNode on an in-memory connection (ping barrier per message, hooked node dump as state key); hostile-input enumeration in worker processes",
 "hdrmc": "explicit-state BFS over operation histories on the real headers.Repository; exact state de-duplication; reference block-tree model; crash-point enumeration",
}
setup = f"cd /verif && {GO} && mkdir -p .build && " + " && ".join(
    (f"go build -tags verif -o .build/{e} ./cmd/{e}" if e != "schedmc" else "bin/build-schedmc") for e in sorted(engines))

m = {
 "version": 1,
 "setup_cmd": setup,
 "hooks": {"guard": "verif (Go build tag)", "enable": "go build -tags verif (files headers/verif_hooks.go, verif_hooks.go)",
           "baseline_off_cmd": "cd /repo && go test -mod=mod -json -vet=off -count=1 -timeout 25m ./...",
           "source_commits": hook_commits, "add_only": True},
 "engines": [{"name": e, "path": f"cmd/{e}", "serves_properties": sorted(p), "kind_free_text": kinds.get(e, "")} for e, p in sorted(engines.items())],
 "checks": entries,
 "not_applicable": [{"property_id": p["id"], "reason": "check not built yet (work in progress; DESIGN.md 12 work order)"} for p in props if p["id"] not in checks],
 "notes": "All checks rebuild from /repo's working tree with -tags verif. Exit 0 = held on everything explored, 1 = VIOLATION line(s), 2 = harness error. Known findings: KNOWN_FINDINGS.txt.",
}
json.dump(m, open('/verif/MANIFEST.json', 'w'), indent=1)
print("checks:", len(entries), "not_applicable:", len(m["not_applicable"]))
